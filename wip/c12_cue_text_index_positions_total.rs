// NOT REGISTERED (not included by any hook, not in the harness registry): see DESIGN.md 6.4/F15.
// Append to kani/k_metadata.rs to try it.
// ===========================================================================
// C12: cue sheet text import - the INDEX position arithmetic is total
// ===========================================================================

/// Offset type for the generic cue text parser whose `FromStr` is the
/// environment stub: every position written in the text parses to an
/// arbitrary 64-bit value.  Everything else (subtraction, adjacency, the
/// conversion to u64) is that of `u64`, the parser's own non-CD-DA
/// instantiation; `CDDAOffset::sub` is the same expression on its field.
#[derive(Copy, Clone, Default, Debug)]
struct AnyPosition(u64);

impl std::str::FromStr for AnyPosition {
    type Err = ();
    fn from_str(_: &str) -> Result<Self, ()> {
        Ok(Self(kani::any()))
    }
}

impl From<AnyPosition> for u64 {
    fn from(p: AnyPosition) -> u64 {
        p.0
    }
}

impl std::ops::Sub for AnyPosition {
    type Output = Self;
    fn sub(self, rhs: Self) -> Self {
        Self(<u64 as std::ops::Sub>::sub(self.0, rhs.0))
    }
}

impl contiguous::Adjacent for AnyPosition {
    fn valid_first(&self) -> bool {
        <u64 as contiguous::Adjacent>::valid_first(&self.0)
    }
    fn is_next(&self, previous: &Self) -> bool {
        <u64 as contiguous::Adjacent>::is_next(&self.0, &previous.0)
    }
}

/// Byte search without the word-at-a-time alignment tricks of
/// `core::slice::memchr` (CBMC forks on the nondeterministic alignment).
fn memchr_model(x: u8, text: &[u8]) -> Option<usize> {
    let mut i = 0;
    while i < text.len() {
        if text[i] == x {
            return Some(i);
        }
        i += 1;
    }
    None
}

// @harness prop=C12 tier=quick expect=pass timeout=900
// @units metadata::ParsedCuesheet::parse (the real line parser, instantiated at 2 tracks x 2 indices) metadata::contiguous::Contiguous::try_push
// @bound cue text of two tracks (INDEX 01, then INDEX 00/01), text pinned; every one of the three index positions is an arbitrary 64-bit value (earlier than, equal to or later than the track's first index)
// @stubs FromStr of the offset type returns an arbitrary u64 for every position in the text (the MM:SS:FF / decimal conversion is outside: string parsing over symbolic text)
// @oracle the importer returns a value or an error, no failed check in the dev profile: an index earlier than its track's first index must not underflow the relative offset
#[kani::proof]
#[kani::stub(core::slice::memchr::memchr, memchr_model)]
#[kani::unwind(56)]
fn c12_cue_text_index_positions_total() {
    let text = "TRACK 1 A\nINDEX 1 0\nTRACK 2 A\nINDEX 0 0\nINDEX 1 0";
    let r = ParsedCuesheet::<2, 2, (), AnyPosition>::parse(text, |_| Ok(()));
    kani::cover!(r.is_ok());
    kani::cover!(r.is_err());
    std::mem::forget(r);
}
