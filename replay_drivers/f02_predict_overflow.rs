// Demonstration for finding F02 (C04): dev-profile overflow panic in decode::predict
// on a 32-bps frame whose FIXED order-1 residual pushes the sample past i32::MAX.
// Run as an integration test of /repo (copy into tests/).
use flac_codec::decode::FlacStreamReader;

fn crc8(data: &[u8]) -> u8 {
    let mut c = 0u8;
    for b in data {
        c ^= *b;
        for _ in 0..8 {
            c = if c & 0x80 != 0 { (c << 1) ^ 0x07 } else { c << 1 };
        }
    }
    c
}

#[test]
fn predict_overflow_is_not_a_panic() {
    // sync; block size code 0110 (8-bit), rate 44.1k; mono, 32 bps; frame 0; 2 samples
    let mut f = vec![0xFF, 0xF8, 0x69, 0x0E, 0x00, 0x01];
    f.push(crc8(&f));
    f.push(0x12); // FIXED order 1
    f.extend([0x7F, 0xFF, 0xFF, 0xFF]); // warm-up = i32::MAX
    f.extend([0x00, 0x08]); // method 0, order 0, rice 0, unary 2 => residual +1
    f.extend([0u8; 4]);
    let mut r = FlacStreamReader::new(std::io::Cursor::new(f));
    // must be an error (CRC-16 mismatch) or data, never a panic
    let _ = r.read();
}
