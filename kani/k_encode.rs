// Harnesses over src/encode.rs (child module of `encode`: private items are reachable)
use super::*;
use crate::verif_env::refmodel;
use crate::verif_env::*;

fn enc_opts(max_partition_order: u32, use_rice2: bool) -> EncoderOptions {
    EncoderOptions {
        max_partition_order,
        mid_side: true,
        seektable_interval: None,
        max_lpc_order: None,
        window: Window::default(),
        exhaustive_channel_correlation: false,
        use_rice2,
    }
}

// ===========================================================================
// C01 / C02: residual coding.  write_residuals -> (bits) -> read_residuals and
// -> the RFC reference model.  The Rice parameter estimate uses f64::log2,
// which CBMC over-approximates as an arbitrary value: the claim therefore holds
// for whatever parameter the estimate picks.
// ===========================================================================

macro_rules! residual_roundtrip {
    ($name:ident, $order:expr, $n:expr, $mpo:expr, $rice2:expr, $toks:expr, $unwind:expr) => {
        #[kani::proof]
        #[kani::unwind($unwind)]
        fn $name() {
            let res: [i32; $n - $order] = kani::any();
            let opts = enc_opts($mpo, $rice2);
            let mut q = TokFifo::<$toks>::new();
            let w = write_residuals(&opts, &mut q, $order, &res);
            let wrote = w.is_ok() && !q.failed;
            std::mem::forget(w);
            if wrote {
                // what the crate's decoder makes of it (C01)
                let mut back = [0i32; $n - $order];
                let mut q1 = q.rewound();
                let r = <Hooks as DecodeHooks>::read_residuals_i32(&mut q1, $order, &mut back);
                assert!(r.is_ok());
                std::mem::forget(r);
                assert!(q1.drained());
                let mut i = 0;
                while i < $n - $order {
                    assert!(back[i] == res[i]);
                    i += 1;
                }
                // what the RFC makes of it (C02)
                let mut q2 = q.rewound();
                let mut exp = [0i128; $n];
                let v = refmodel::residuals(&mut q2, $order, $n, &mut exp);
                assert!(v == refmodel::Verdict::Valid);
                assert!(q2.drained());
                let mut i = 0;
                while i < $n - $order {
                    assert!(exp[$order + i] == i128::from(res[i]));
                    i += 1;
                }
            }
            kani::cover!(wrote);
        }
    };
}

// @harness prop=C01,C02 tier=thorough expect=pass timeout=3000
// @units encode::write_residuals encode::write_residuals::best_partitions encode::write_residuals::Partition::new decode::read_residuals
// @bound block 2, predictor order 1 (1 residual, any i32), max partition order 0, 4-bit Rice parameters (measured: 1006 s; blocks of 4 with partition order <= 2 exhaust 16 GB and are outside the claim)
// @oracle writer Ok => crate decoder returns the residuals and consumes every bit; RFC reference model calls the section valid, consumes every bit and yields the same residuals
residual_roundtrip!(c01_residuals_n2_o1_po0, 1, 2, 0, false, 8, 3);

// ===========================================================================
// C01: LPC prediction inverse
// ===========================================================================

// @harness prop=C01 tier=quick expect=pass timeout=1200
// @units encode::LpcSubframeParameters::encode_residuals decode::predict<i32>
// @bound LPC order 1, 3 samples (any i32), coefficient any 15-bit signed value, shift 0..=15
// @oracle encoder returned Ok => predict(warm-up ++ residuals) == the channel, with no overflow in the decoder half
#[kani::proof]
#[kani::unwind(6)]
fn c01_lpc_inverse_o1_n3() {
    let ch: [i32; 3] = kani::any();
    let c: i16 = kani::any();
    kani::assume(c >= -16384 && c < 16384);
    let shift: u32 = kani::any();
    kani::assume(shift <= 15);
    let mut coefficients = ArrayVec::<i32, MAX_LPC_COEFFS>::new();
    coefficients.push(i32::from(c));
    let params = LpcParameters {
        order: NonZero::new(1).unwrap(),
        precision: SignedBitCount::new::<15>(),
        shift,
        coefficients,
    };
    let mut residuals: Vec<i32> = Vec::with_capacity(4);
    let r = LpcSubframeParameters::encode_residuals(&params, &ch, &mut residuals);
    if let Ok((warm, res)) = r {
        assert!(warm.len() == 1 && res.len() == 2);
        let mut back = [warm[0], res[0], res[1]];
        <Hooks as DecodeHooks>::predict_i32(&[i64::from(c)], shift, &mut back);
        assert!(back[0] == ch[0] && back[1] == ch[1] && back[2] == ch[2]);
    }
    kani::cover!(r.is_ok());
    std::mem::forget(residuals);
}

