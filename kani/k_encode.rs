// Harnesses over src/encode.rs (child module of `encode`: private items are reachable)
use super::*;
use crate::verif_env::refmodel;
use crate::verif_env::*;

fn enc_opts(max_partition_order: u32, use_rice2: bool) -> EncoderOptions {
    EncoderOptions {
        max_partition_order,
        mid_side: true,
        seektable_interval: None,
        max_lpc_order: None,
        window: Window::default(),
        exhaustive_channel_correlation: false,
        use_rice2,
    }
}

// ===========================================================================
// C01 / C02: residual coding.  write_residuals -> (bits) -> read_residuals and
// -> the RFC reference model.  The Rice parameter estimate uses f64::log2,
// which CBMC over-approximates as an arbitrary value: the claim therefore holds
// for whatever parameter the estimate picks.
// ===========================================================================

macro_rules! residual_roundtrip {
    ($name:ident, $order:expr, $n:expr, $mpo:expr, $rice2:expr, $toks:expr, $unwind:expr) => {
        #[kani::proof]
        #[kani::unwind($unwind)]
        fn $name() {
            let res: [i32; $n - $order] = kani::any();
            let opts = enc_opts($mpo, $rice2);
            let mut q = TokFifo::<$toks>::new();
            let w = write_residuals(&opts, &mut q, $order, &res);
            let wrote = w.is_ok() && !q.failed;
            std::mem::forget(w);
            if wrote {
                // what the crate's decoder makes of it (C01)
                let mut back = [0i32; $n - $order];
                let mut q1 = q.rewound();
                let r = <Hooks as DecodeHooks>::read_residuals_i32(&mut q1, $order, &mut back);
                assert!(r.is_ok());
                std::mem::forget(r);
                assert!(q1.drained());
                let mut i = 0;
                while i < $n - $order {
                    assert!(back[i] == res[i]);
                    i += 1;
                }
                // what the RFC makes of it (C02)
                let mut q2 = q.rewound();
                let mut exp = [0i128; $n];
                let v = refmodel::residuals(&mut q2, $order, $n, &mut exp);
                assert!(v == refmodel::Verdict::Valid);
                assert!(q2.drained());
                let mut i = 0;
                while i < $n - $order {
                    assert!(exp[$order + i] == i128::from(res[i]));
                    i += 1;
                }
            }
            kani::cover!(wrote);
        }
    };
}

// @harness prop=C01,C02 tier=thorough expect=pass timeout=3000
// @units encode::write_residuals encode::write_residuals::best_partitions encode::write_residuals::Partition::new decode::read_residuals
// @bound block 2, predictor order 1 (1 residual, any i32), max partition order 0, 4-bit Rice parameters (measured: 1006 s; blocks of 4 with partition order <= 2 exhaust 16 GB and are outside the claim)
// @oracle writer Ok => crate decoder returns the residuals and consumes every bit; RFC reference model calls the section valid, consumes every bit and yields the same residuals
residual_roundtrip!(c01_residuals_n2_o1_po0, 1, 2, 0, false, 8, 3);

// ===========================================================================
// C01: LPC prediction inverse
// ===========================================================================

// @harness prop=C01 tier=quick expect=pass timeout=1200
// @units encode::LpcSubframeParameters::encode_residuals decode::predict<i32>
// @bound LPC order 1, 3 samples (any i32), coefficient any 15-bit signed value, shift 0..=15
// @oracle encoder returned Ok => predict(warm-up ++ residuals) == the channel, with no overflow in the decoder half
#[kani::proof]
#[kani::unwind(6)]
fn c01_lpc_inverse_o1_n3() {
    let ch: [i32; 3] = kani::any();
    let c: i16 = kani::any();
    kani::assume(c >= -16384 && c < 16384);
    let shift: u32 = kani::any();
    kani::assume(shift <= 15);
    let mut coefficients = ArrayVec::<i32, MAX_LPC_COEFFS>::new();
    coefficients.push(i32::from(c));
    let params = LpcParameters {
        order: NonZero::new(1).unwrap(),
        precision: SignedBitCount::new::<15>(),
        shift,
        coefficients,
    };
    let mut residuals: Vec<i32> = Vec::with_capacity(4);
    let r = LpcSubframeParameters::encode_residuals(&params, &ch, &mut residuals);
    if let Ok((warm, res)) = r {
        assert!(warm.len() == 1 && res.len() == 2);
        let mut back = [warm[0], res[0], res[1]];
        <Hooks as DecodeHooks>::predict_i32(&[i64::from(c)], shift, &mut back);
        assert!(back[0] == ch[0] && back[1] == ch[1] && back[2] == ch[2]);
    }
    kani::cover!(r.is_ok());
    std::mem::forget(residuals);
}


// ===========================================================================
// C15: constructors validate their arguments
// ===========================================================================

/// a writer that accepts everything and can be repositioned
pub struct NullSeek {
    pub pos: u64,
    /// number of seek calls that asked for a different position
    pub moves: u32,
    /// bytes accepted by write()
    pub written: u64,
}

impl std::io::Write for NullSeek {
    fn write(&mut self, buf: &[u8]) -> std::io::Result<usize> {
        self.pos += buf.len() as u64;
        self.written += buf.len() as u64;
        Ok(buf.len())
    }
    fn flush(&mut self) -> std::io::Result<()> {
        Ok(())
    }
}

impl std::io::Seek for NullSeek {
    fn seek(&mut self, to: std::io::SeekFrom) -> std::io::Result<u64> {
        match to {
            std::io::SeekFrom::Start(p) => {
                if p != self.pos {
                    self.moves += 1;
                }
                self.pos = p;
            }
            std::io::SeekFrom::Current(0) => {}
            _ => self.moves += 1,
        }
        Ok(self.pos)
    }
}

/// stand-in for metadata::write_blocks (serialisation is C11/C13's subject)
fn stub_write_blocks<B: crate::metadata::AsBlockRef>(
    _w: impl std::io::Write,
    _blocks: impl IntoIterator<Item = B>,
) -> Result<(), Error> {
    Ok(())
}

/// default options without padding and seek table, built directly (the
/// default constructor and `no_padding` shuffle heap-allocated block lists)
fn plain_options() -> Options {
    Options {
        clobber: false,
        block_size: 4096,
        mid_side: true,
        max_partition_order: 5,
        metadata: BlockList::new(Streaminfo {
            minimum_block_size: 0,
            maximum_block_size: 0,
            minimum_frame_size: None,
            maximum_frame_size: None,
            sample_rate: 0,
            channels: NonZero::new(1).unwrap(),
            bits_per_sample: SignedBitCount::new::<4>(),
            total_samples: None,
            md5: None,
        }),
        seektable_interval: None,
        max_lpc_order: NonZero::new(8),
        window: Window::default(),
        exhaustive_channel_correlation: true,
    }
}

// @harness prop=C15 tier=quick expect=pass timeout=900 replay=driver
// @units encode::FlacSampleWriter::new encode::Encoder::new encode::exact_div
// @stubs metadata::write_blocks
// @bound every sample rate (u32), bit depth (u32), channel count (u8) and declared total (None or any u64); no seek table, no padding (both only add blocks)
// @oracle never panics; Ok exactly for: depth 1..=32, rate < 2^20, channels 1..=8 and a total that is absent or a non-zero whole number of PCM frames below 2^36; everything else is an error
#[kani::proof]
#[kani::unwind(10)]
#[kani::stub(write_blocks, stub_write_blocks)]
fn c15_sample_writer_new_validates() {
    let rate: u32 = kani::any();
    let bps: u32 = kani::any();
    let channels: u8 = kani::any();
    let total: Option<u64> = if kani::any() { Some(kani::any()) } else { None };
    let base_ok = bps >= 1 && bps <= 32 && rate < (1 << 20) && channels >= 1 && channels <= 8;
    let r = FlacSampleWriter::new(NullSeek { pos: 0, moves: 0, written: 0 }, plain_options(), rate, bps, channels, total);
    let total_ok = match total {
        None => true,
        Some(t) => channels != 0 && t % u64::from(channels) == 0 && t != 0 && t / u64::from(channels) < (1 << 36),
    };
    assert!(r.is_ok() == (base_ok && total_ok));
    std::mem::forget(r);
}

// @harness prop=C15 tier=quick expect=pass timeout=900 replay=driver
// @units encode::FlacByteWriter::new encode::Encoder::new encode::exact_div
// @stubs metadata::write_blocks
// @bound as c15_sample_writer_new_validates for the byte front-end (total given in bytes)
// @oracle never panics; Ok exactly for legal depth/rate/channels and a total that is absent or a non-zero whole number of PCM frames (bytes / channels / bytes-per-sample) below 2^36
#[kani::proof]
#[kani::unwind(10)]
#[kani::stub(write_blocks, stub_write_blocks)]
fn c15_byte_writer_new_validates() {
    let rate: u32 = kani::any();
    let bps: u32 = kani::any();
    let channels: u8 = kani::any();
    let total: Option<u64> = if kani::any() { Some(kani::any()) } else { None };
    let base_ok = bps >= 1 && bps <= 32 && rate < (1 << 20) && channels >= 1 && channels <= 8;
    let r = FlacByteWriter::<_, crate::byteorder::LittleEndian>::new(NullSeek { pos: 0, moves: 0, written: 0 }, plain_options(), rate, bps, channels, total);
    if r.is_ok() {
        assert!(base_ok);
        if let Some(t) = total {
            let frame = u64::from(channels) * u64::from((bps + 7) / 8);
            assert!(t != 0 && t % frame == 0);
        }
    }
    if !base_ok {
        assert!(r.is_err());
    }
    std::mem::forget(r);
}

// @harness prop=C15 tier=quick expect=pass timeout=900 replay=driver
// @units encode::FlacChannelWriter::new encode::Encoder::new
// @stubs metadata::write_blocks
// @bound channel count pinned in turn to 0, 1, 8, 9 (it sizes a vector); every rate, depth and declared total
// @oracle never panics; Ok exactly for legal depth/rate/channels and a total that is absent or below 2^36
#[kani::proof]
#[kani::unwind(12)]
#[kani::stub(write_blocks, stub_write_blocks)]
fn c15_channel_writer_new_validates() {
    const CH: [u8; 4] = [0, 1, 8, 9];
    let mut i = 0;
    while i < CH.len() {
        let rate: u32 = kani::any();
        let bps: u32 = kani::any();
        let total: Option<u64> = if kani::any() { Some(kani::any()) } else { None };
        let base_ok = bps >= 1 && bps <= 32 && rate < (1 << 20) && CH[i] >= 1 && CH[i] <= 8;
        let r = FlacChannelWriter::new(NullSeek { pos: 0, moves: 0, written: 0 }, plain_options(), rate, bps, CH[i], total);
        let total_ok = match total {
            None => true,
            Some(t) => t < (1 << 36),
        };
        assert!(r.is_ok() == (base_ok && total_ok));
        std::mem::forget(r);
        i += 1;
    }
}

// @harness prop=C15 tier=quick expect=pass timeout=600
// @units encode::Options::block_size encode::Options::max_lpc_order encode::Options::max_partition_order encode::Options::padding
// @bound every argument value of the four checked option setters
// @oracle never panics; Ok exactly for block size >= 16, LPC order None or 1..=32, partition order 0..=15, padding < 2^24
#[kani::proof]
#[kani::unwind(6)]
fn c15_option_setters_validate() {
    let b: u16 = kani::any();
    let r = plain_options().block_size(b);
    assert!(r.is_ok() == (b >= 16));
    std::mem::forget(r);
    let l: Option<u8> = if kani::any() { Some(kani::any()) } else { None };
    let r = plain_options().max_lpc_order(l);
    assert!(r.is_ok() == match l { None => true, Some(v) => v >= 1 && v <= 32 });
    std::mem::forget(r);
    let p: u32 = kani::any();
    let r = plain_options().max_partition_order(p);
    assert!(r.is_ok() == (p <= 15));
    std::mem::forget(r);
    let s: u32 = kani::any();
    let r = plain_options().padding(s);
    assert!(r.is_ok() == (s < (1 << 24)));
    std::mem::forget(r);
}

// ===========================================================================
// C09: seek point bookkeeping
// ===========================================================================

// @harness prop=C09 tier=quick expect=pass timeout=900
// @units encode::SeekTableInterval::filter encode::EncoderSeekPoint::range
// @bound 3 consecutive frames (first sample offsets and lengths symbolic but contiguous, byte offsets ascending), interval = every n seconds (n 1..=255, any 20-bit rate) or every n frames (n 1..=3)
// @oracle the selected points are a subsequence of the frames actually written (unchanged sample offset, byte offset and length), in ascending order, starting with the first frame; "every n frames" selects exactly frames 0, n, 2n, ...
#[kani::proof]
#[kani::unwind(6)]
fn c09_seektable_filter_selects_written_frames() {
    let len: [u16; 3] = kani::any();
    kani::assume(len[0] >= 1 && len[1] >= 1 && len[2] >= 1);
    let b: [u32; 3] = kani::any();
    let pts = [
        EncoderSeekPoint { sample_offset: 0, byte_offset: Some(0), frame_samples: len[0] },
        EncoderSeekPoint { sample_offset: u64::from(len[0]), byte_offset: Some(u64::from(b[0]) + 1), frame_samples: len[1] },
        EncoderSeekPoint {
            sample_offset: u64::from(len[0]) + u64::from(len[1]),
            byte_offset: Some(u64::from(b[0]) + u64::from(b[1]) + 2),
            frame_samples: len[2],
        },
    ];
    let interval = if kani::any() {
        let s: u8 = kani::any();
        kani::assume(s >= 1);
        SeekTableInterval::Seconds(NonZero::new(s).unwrap())
    } else {
        let f: usize = kani::any();
        kani::assume(f >= 1 && f <= 3);
        SeekTableInterval::Frames(NonZero::new(f).unwrap())
    };
    let rate: u32 = kani::any();
    kani::assume(rate < (1 << 20));
    let mut it = interval.filter(rate, pts.iter().cloned());
    let mut next_src = 0usize; // selected points must come from pts[next_src..]
    let mut count = 0;
    let mut k = 0;
    while k < 4 {
        match it.next() {
            None => break,
            Some(p) => {
                // find it among the remaining frames
                let mut found = false;
                let mut j = 0;
                while j < 3 {
                    if j >= next_src && !found && pts[j].sample_offset == p.sample_offset {
                        assert!(p.byte_offset == pts[j].byte_offset && p.frame_samples == pts[j].frame_samples);
                        found = true;
                        next_src = j + 1;
                    }
                    j += 1;
                }
                assert!(found);
                if count == 0 {
                    assert!(p.sample_offset == 0);
                }
                // "every n-th frame" means frames 0, n, 2n, ...
                if let SeekTableInterval::Frames(f) = interval {
                    assert!(next_src - 1 == count * f.get());
                }
                count += 1;
            }
        }
        k += 1;
    }
    assert!(count >= 1 && count <= 3);
    std::mem::forget(it);
}

// @harness prop=C09 tier=quick expect=pass timeout=600
// @units encode::EncoderSeekPoint::placeholders encode::EncoderSeekPoint::range
// @bound declared total 1..2^36-1 and block size 16..=65535 symbolic; the first 3 placeholder points
// @oracle point k starts at k x block size, covers min(block size, what is left) samples, has no byte offset; there are ceil(total / block size) of them
#[kani::proof]
#[kani::unwind(6)]
fn c09_placeholders_cover_declared_total() {
    let total: u64 = kani::any();
    kani::assume(total >= 1 && total < (1 << 36));
    let block: u16 = kani::any();
    kani::assume(block >= 16);
    let mut it = EncoderSeekPoint::placeholders(total, block);
    let mut k: u64 = 0;
    while k < 3 {
        let start = k * u64::from(block);
        match it.next() {
            Some(p) => {
                assert!(start < total);
                assert!(p.sample_offset == start && p.byte_offset.is_none());
                let left = total - start;
                let want = if left < u64::from(block) { left as u16 } else { block };
                assert!(p.frame_samples == want);
                assert!(p.range().end <= total && p.range().start == start);
            }
            None => assert!(start >= total),
        }
        k += 1;
    }
}

/// stand-in for encode_frame: emits 1, 2 or 3 bytes (solver's choice) and
/// counts the frame, or fails
fn stub_encode_frame<W: std::io::Write>(
    _options: &EncoderOptions,
    _cache: &mut EncodingCaches,
    mut writer: W,
    _streaminfo: &mut Streaminfo,
    frame_number: &mut FrameNumber,
    _sample_rate: SampleRate<u32>,
    _frame: ArrayVec<&[i32], MAX_CHANNELS>,
) -> Result<(), Error> {
    if kani::any() {
        return Err(Error::ResidualOverflow);
    }
    let sel: u8 = kani::any();
    match sel % 3 {
        0 => writer.write_all(&[0]).map_err(Error::Io)?,
        1 => writer.write_all(&[0, 0]).map_err(Error::Io)?,
        _ => writer.write_all(&[0, 0, 0]).map_err(Error::Io)?,
    }
    frame_number.try_increment()
}

fn model_encoder(total: Option<u64>, written: u64, bytes: u64) -> Encoder<NullSeek> {
    let mut blocks = BlockList::new(Streaminfo {
        minimum_block_size: 16,
        maximum_block_size: 16,
        minimum_frame_size: None,
        maximum_frame_size: None,
        sample_rate: 44100,
        channels: NonZero::new(1).unwrap(),
        bits_per_sample: SignedBitCount::new::<16>(),
        total_samples: total.and_then(NonZero::new),
        md5: None,
    });
    let _ = &mut blocks;
    Encoder {
        writer: Counter { stream: NullSeek { pos: 100 + bytes, moves: 0, written: 0 }, count: bytes },
        start: 7,
        options: enc_opts(0, false),
        caches: EncodingCaches::default(),
        blocks,
        sample_rate: SampleRate::Hz44100,
        frame_number: FrameNumber(0),
        samples_written: written,
        seekpoints: Vec::new(),
        md5: md5::Context::new(),
        finalized: false,
    }
}

// @harness prop=C09,C15,C14 tier=quick expect=pass timeout=900 replay=driver
// @units encode::Encoder::encode (seek point and sample bookkeeping, declared-length enforcement, append-only output)
// @stubs encode::encode_frame metadata::write_blocks
// @bound one encode() call of a 2-sample mono frame from an arbitrary encoder state (samples written so far < 2^36, bytes written so far < 2^40, declared total None or 1..2^36-1)
// @oracle the seek point recorded for the frame names the sample count and the byte offset before the call and the frame's length; the sample counter advances by the frame length; exceeding a declared total is Err(ExcessiveTotalSamples) and nothing is handed to the frame encoder
#[kani::proof]
#[kani::unwind(6)]
#[kani::stub(encode_frame, stub_encode_frame)]
#[kani::stub(write_blocks, stub_write_blocks)]
fn c09_encoder_encode_bookkeeping() {
    let written: u64 = kani::any();
    kani::assume(written < (1 << 36));
    let bytes: u64 = kani::any();
    kani::assume(bytes < (1 << 40));
    let total: Option<u64> = if kani::any() {
        let t: u64 = kani::any();
        kani::assume(t >= 1 && t < (1 << 36) && written <= t);
        Some(t)
    } else {
        None
    };
    let mut e = model_encoder(total, written, bytes);
    let mut frame = Frame::empty(1, 16);
    frame.fill_from_channels([[1i32, 2]]);
    let r = e.encode(&frame);
    assert!(e.seekpoints.len() == 1);
    let p = &e.seekpoints[0];
    assert!(p.sample_offset == written && p.byte_offset == Some(bytes) && p.frame_samples == 2);
    assert!(e.samples_written == written + 2);
    // C14: before finalize the encoder only appends (no repositioning of the writer)
    assert!(e.writer.stream.moves == 0 && e.writer.stream.pos == 100 + bytes + e.writer.stream.written);
    match total {
        Some(t) if written + 2 > t => {
            assert!(matches!(r, Err(Error::ExcessiveTotalSamples)));
            assert!(e.writer.count == bytes);
        }
        _ => {
            // filling a declared total exactly (or staying below it) is never "too many samples"
            assert!(!matches!(r, Err(Error::ExcessiveTotalSamples)));
            if r.is_ok() {
                assert!(e.writer.count > bytes && e.writer.count <= bytes + 3);
                assert!(e.frame_number.0 == 1);
            }
        }
    }
    kani::cover!(r.is_ok());
    std::mem::forget(r);
    std::mem::forget(e);
    std::mem::forget(frame);
}

// @harness prop=C09,C15 tier=quick expect=pass timeout=900 replay=driver
// @units encode::Encoder::finalize_inner (declared-length check, final sample count, MD5, header rewrite position)
// @stubs metadata::write_blocks
// @bound finalize from an arbitrary encoder state without seek table: samples written 0..2^37, declared total None or 1..2^36-1
// @oracle declared total != written => Err(SampleCountMismatch); undeclared: 0 written => Err(NoSamples), >= 2^36 => Err(ExcessiveTotalSamples), else STREAMINFO carries exactly the written count; on success an MD5 is stored and the writer was repositioned to the remembered stream start; a second finalize is a no-op
#[kani::proof]
#[kani::unwind(6)]
#[kani::stub(write_blocks, stub_write_blocks)]
fn c09_encoder_finalize_counts() {
    let written: u64 = kani::any();
    kani::assume(written < (1 << 37));
    let total: Option<u64> = if kani::any() {
        let t: u64 = kani::any();
        kani::assume(t >= 1 && t < (1 << 36));
        Some(t)
    } else {
        None
    };
    let mut e = model_encoder(total, written, 5);
    let r = e.finalize_inner();
    match total {
        Some(t) => {
            if t != written {
                assert!(matches!(r, Err(Error::SampleCountMismatch)));
            } else {
                assert!(r.is_ok());
            }
        }
        None => {
            if written == 0 {
                assert!(matches!(r, Err(Error::NoSamples)));
            } else if written >= (1 << 36) {
                assert!(matches!(r, Err(Error::ExcessiveTotalSamples)));
            } else {
                assert!(r.is_ok());
            }
        }
    }
    if r.is_ok() {
        assert!(e.blocks.streaminfo().total_samples.map(|t| t.get()) == Some(written));
        assert!(e.blocks.streaminfo().md5.is_some());
        assert!(e.writer.stream.pos == 7);
    }
    assert!(e.finalized);
    std::mem::forget(r);
    let again = e.finalize_inner();
    assert!(again.is_ok());
    std::mem::forget(again);
    std::mem::forget(e);
}

// (finalize with a seek table - refilled in place or carved out of padding -
// consumes the Box<dyn Iterator> returned by SeekTableInterval::filter through
// try_extend/collect and sizes the table through the bit counter: neither
// variant finished in 900 s at 2 seek points; outside the claim)

// ===========================================================================
// C01/C02: the constant and verbatim subframe writers (the encoder's fallback)
// ===========================================================================

macro_rules! c01_plain_subframe {
    ($name:ident, $n:expr, $toks:expr, $constant:expr, $bps:expr, $wasted:expr) => {
        #[kani::proof]
        #[kani::unwind(8)]
        fn $name() {
            let bps: u32 = $bps;
            let wasted: u32 = $wasted;
            let eff = bps - wasted;
            // the encoder hands the writer samples already shifted down by the wasted bits
            let mut ch: [i32; $n] = kani::any();
            let mut i = 0;
            while i < $n {
                let lo = -(1i64 << (eff - 1));
                let hi = (1i64 << (eff - 1)) - 1;
                kani::assume(i64::from(ch[i]) >= lo && i64::from(ch[i]) <= hi);
                if $constant {
                    ch[i] = ch[0];
                }
                i += 1;
            }
            let mut q = TokFifo::<$toks>::new();
            let ebps = SignedBitCount::<32>::try_from(eff).unwrap();
            let w = if $constant {
                encode_constant_subframe(&mut q, ch[0], ebps, wasted)
            } else {
                encode_verbatim_subframe(&mut q, &ch, ebps, wasted)
            };
            assert!(w.is_ok() && !q.failed);
            std::mem::forget(w);
            // size: 8 header bits + wasted-bits code + payload
            let payload = if $constant { u64::from(eff) } else { $n as u64 * u64::from(eff) };
            assert!(q.wpos == 8 + u64::from(wasted) + payload);
            // crate decoder
            let mut back = [0i32; $n];
            let mut q1 = q.rewound();
            let r = <Hooks as DecodeHooks>::read_subframe_i32(&mut q1, bps, &mut back);
            assert!(r.is_ok());
            std::mem::forget(r);
            assert!(q1.drained());
            // RFC reference
            let mut exp = [0i128; $n];
            let mut q2 = q.rewound();
            let v = refmodel::subframe(&mut q2, bps, $n, &mut exp);
            assert!(v == refmodel::Verdict::Valid && q2.drained());
            let mut i = 0;
            while i < $n {
                let want = i64::from(ch[i]) << wasted;
                assert!(i64::from(back[i]) == want);
                assert!(exp[i] == i128::from(want));
                i += 1;
            }
        }
    };
}

// @harness prop=C01,C02 tier=quick expect=pass timeout=900
// @units encode::encode_verbatim_subframe stream::SubframeHeader::to_writer decode::read_subframe<32,i32>
// @bound VERBATIM subframe of 3 samples at 16 bits with 3 wasted bits: every sample that fits the 13-bit effective width
// @oracle the crate decoder and the RFC reference model both return sample << wasted for every sample and consume every bit; size == 8 + wasted + 3 x effective bits
c01_plain_subframe!(c01_verbatim_writer_roundtrip_b16_w3, 3, 12, false, 16, 3);

// @harness prop=C01,C02 tier=quick expect=pass timeout=900
// @units encode::encode_verbatim_subframe decode::read_subframe<32,i32>
// @bound VERBATIM subframe of 3 full-range samples at 32 bits, no wasted bits
c01_plain_subframe!(c01_verbatim_writer_roundtrip_b32, 3, 12, false, 32, 0);

// @harness prop=C01,C02 tier=quick expect=pass timeout=900
// @units encode::encode_constant_subframe stream::SubframeHeader::to_writer decode::read_subframe<32,i32>
// @bound CONSTANT subframe for a block of 3 at 8 bits with 1 wasted bit, any value that fits
// @oracle decoder and reference model return the value << wasted three times; size == 8 + wasted + effective bits
c01_plain_subframe!(c01_constant_writer_roundtrip_b8_w1, 3, 8, true, 8, 1);

// ===========================================================================
// C01 kernel 4: inter-channel decorrelation and its inverse
// ===========================================================================

macro_rules! c01_correlate {
    ($name:ident, $bps:expr) => {
        #[kani::proof]
        #[kani::unwind(6)]
        fn $name() {
            let l: [i32; 2] = kani::any();
            let r: [i32; 2] = kani::any();
            let lo = -(1i64 << ($bps - 1));
            let hi = (1i64 << ($bps - 1)) - 1;
            let mut i = 0;
            while i < 2 {
                kani::assume(i64::from(l[i]) >= lo && i64::from(l[i]) <= hi);
                kani::assume(i64::from(r[i]) >= lo && i64::from(r[i]) <= hi);
                i += 1;
            }
            let mut opts = enc_opts(0, false);
            opts.mid_side = kani::any();
            let mut cache = CorrelationCache::default();
            let c = correlate_channels(&opts, &mut cache, [&l, &r], SignedBitCount::<32>::new::<$bps>());
            let [c0, c1] = &c.channels;
            assert!(c0.samples.len() == 2 && c1.samples.len() == 2);
            let mut i = 0;
            while i < 2 {
                let a = i64::from(c0.samples[i]);
                let b = i64::from(c1.samples[i]);
                // the decoder's restoration (RFC 9639 section 4.2), in 64 bits
                let (rl, rr, w0, w1): (i64, i64, u32, u32) = match c.channel_assignment {
                    ChannelAssignment::Independent(_) => (a, b, $bps, $bps),
                    ChannelAssignment::LeftSide => (a, a - b, $bps, $bps + 1),
                    ChannelAssignment::SideRight => (a + b, b, $bps + 1, $bps),
                    ChannelAssignment::MidSide => {
                        let m2 = (a << 1) | (b & 1);
                        ((m2 + b) >> 1, (m2 - b) >> 1, $bps, $bps + 1)
                    }
                };
                assert!(rl == i64::from(l[i]) && rr == i64::from(r[i]));
                // each channel fits the width its subframe is written with
                assert!(u32::from(c0.bits_per_sample) == w0 && u32::from(c1.bits_per_sample) == w1);
                assert!(a >= -(1i64 << (w0 - 1)) && a < (1i64 << (w0 - 1)));
                assert!(b >= -(1i64 << (w1 - 1)) && b < (1i64 << (w1 - 1)));
                // the "all samples are zero" hint is trusted by encode_subframe
                if c0.all_0 {
                    assert!(a == 0);
                }
                if c1.all_0 {
                    assert!(b == 0);
                }
                i += 1;
            }
            if !opts.mid_side {
                assert!(!matches!(c.channel_assignment, ChannelAssignment::MidSide));
            }
            kani::cover!(matches!(c.channel_assignment, ChannelAssignment::LeftSide));
            kani::cover!(matches!(c.channel_assignment, ChannelAssignment::SideRight));
            std::mem::forget(cache);
        }
    };
}

// @harness prop=C01,C02 tier=quick expect=pass timeout=900
// @units encode::correlate_channels
// @bound 2 stereo samples, every left/right value that fits 16 bits, mid-side on or off
// @oracle undoing the chosen decorrelation the way RFC 9639 prescribes returns the input; every channel handed to the subframe encoder fits the width it is encoded with (side channel: one bit more); an "all zero" hint is only given for an all-zero channel; no mid-side when it is switched off
c01_correlate!(c01_correlate_channels_b16, 16);

// @harness prop=C01,C02 tier=quick expect=pass timeout=900
// @units encode::correlate_channels
// @bound as above at 31 bits per sample (the side channel fills an i32)
c01_correlate!(c01_correlate_channels_b31, 31);

// @harness prop=C01,C02 tier=quick expect=pass timeout=600
// @units encode::correlate_channels
// @bound 2 full-range stereo samples at 32 bits per sample
// @oracle 32-bit input is never given a side channel: both channels independent and unchanged
#[kani::proof]
#[kani::unwind(6)]
fn c01_correlate_channels_b32_independent() {
    let l: [i32; 2] = kani::any();
    let r: [i32; 2] = kani::any();
    let mut opts = enc_opts(0, false);
    opts.mid_side = kani::any();
    let mut cache = CorrelationCache::default();
    let c = correlate_channels(&opts, &mut cache, [&l, &r], SignedBitCount::<32>::new::<32>());
    assert!(matches!(c.channel_assignment, ChannelAssignment::Independent(Independent::Stereo)));
    let [c0, c1] = &c.channels;
    assert!(c0.samples[0] == l[0] && c0.samples[1] == l[1] && c1.samples[0] == r[0] && c1.samples[1] == r[1]);
    assert!(u32::from(c0.bits_per_sample) == 32 && u32::from(c1.bits_per_sample) == 32);
    if c0.all_0 {
        assert!(l[0] == 0 && l[1] == 0);
    }
    std::mem::forget(cache);
}

// (frame assembly - encode_frame with the subframe encoder stubbed to emit 13
// arbitrary bits, through the real BitWriter/CrcWriter/Counter chain - did not
// finish in 1200 s; zero padding, CRC-16 placement and the frame-size extrema
// updated at the end of encode_frame are therefore outside every claim)

// @harness prop=C14,C15 tier=quick expect=pass timeout=900 replay=driver
// @units encode::Encoder::new (provisional header, remembered stream start)
// @stubs metadata::write_blocks
// @bound legal parameters (any 20-bit rate, depth 1..=32, 1..=8 channels, total None or 1..2^36-1), writer positioned at an arbitrary offset, no seek table/padding
// @oracle the provisional STREAMINFO carries the declared parameters, no MD5 and no frame sizes yet; the stream start remembered for the final header rewrite is the writer's position at creation; the writer is never repositioned; the frame byte counter starts at 0
#[kani::proof]
#[kani::unwind(6)]
#[kani::stub(write_blocks, stub_write_blocks)]
fn c14_encoder_new_provisional_header() {
    let rate: u32 = kani::any();
    kani::assume(rate < (1 << 20));
    let bps: u32 = kani::any();
    kani::assume(bps >= 1 && bps <= 32);
    let channels: u8 = kani::any();
    kani::assume(channels >= 1 && channels <= 8);
    let total: u64 = kani::any();
    kani::assume(total < (1 << 36));
    let at: u64 = kani::any();
    kani::assume(at < (1 << 40));
    let e = Encoder::new(
        NullSeek { pos: at, moves: 0, written: 0 },
        plain_options(),
        rate,
        SignedBitCount::<32>::try_from(bps).unwrap(),
        channels,
        NonZero::new(total),
    );
    assert!(e.is_ok());
    let e = e.unwrap();
    let si = e.blocks.streaminfo();
    assert!(si.sample_rate == rate && u32::from(si.bits_per_sample) == bps && si.channels.get() == channels);
    assert!(si.total_samples.map(|t| t.get()).unwrap_or(0) == total);
    assert!(si.md5.is_none() && si.minimum_frame_size.is_none() && si.maximum_frame_size.is_none());
    assert!(si.minimum_block_size == 4096 && si.maximum_block_size == 4096);
    assert!(e.start == at && e.writer.count == 0 && e.writer.stream.moves == 0);
    assert!(e.samples_written == 0 && e.frame_number.0 == 0 && !e.finalized);
    assert!(e.options.use_rice2 == (bps > 16));
    std::mem::forget(e);
}
