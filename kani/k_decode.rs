// Harnesses over src/decode.rs (child module of `decode`: private items are reachable)
use super::*;
use crate::stream::{
    BitsPerSample, BlockSize, ChannelAssignment, FrameHeader, FrameNumber, Independent, SampleRate,
    SubframeHeaderType,
};
use crate::verif_env::*;
use crate::verif_env::refmodel;

impl DecodeHooks for Hooks {
    fn read_residuals_i32<R: BitRead>(r: &mut R, order: usize, res: &mut [i32]) -> Result<(), Error> {
        read_residuals(r, order, res)
    }
    fn read_subframe_i32<R: BitRead>(r: &mut R, bps: u32, ch: &mut [i32]) -> Result<(), Error> {
        read_subframe::<32, R, i32>(r, SignedBitCount::<32>::try_from(bps).unwrap(), ch)
    }
    fn read_subframe_i64<R: BitRead>(r: &mut R, bps: u32, ch: &mut [i64]) -> Result<(), Error> {
        read_subframe::<33, R, i64>(r, SignedBitCount::<33>::try_from(bps).unwrap(), ch)
    }
    fn predict_i32(coefficients: &[i64], shift: u32, ch: &mut [i32]) {
        predict(coefficients, shift, ch)
    }
    fn read_subframes<R: BitRead>(
        r: R,
        header: &FrameHeader,
        buf: &mut Frame,
    ) -> Result<(), Error> {
        read_subframes(r, header, buf)
    }
}

fn sbc32(bits: u32) -> SignedBitCount<32> {
    SignedBitCount::<32>::try_from(bits).unwrap()
}

fn any_bps32() -> SignedBitCount<32> {
    let b: u32 = kani::any();
    kani::assume(b >= 1 && b <= 32);
    sbc32(b)
}

fn hdr(block: u16, ca: ChannelAssignment, bps: BitsPerSample) -> FrameHeader {
    FrameHeader {
        blocking_strategy: false,
        block_size: BlockSize::Uncommon8(block),
        sample_rate: SampleRate::Hz44100,
        channel_assignment: ca,
        bits_per_sample: bps,
        frame_number: FrameNumber(0),
    }
}

// ===========================================================================
// C04: no panic / no unbounded loop on arbitrary input (dev profile: overflow
// checks and debug assertions on).  Oracle of every harness in this block: no
// failed check of any kind.
// ===========================================================================


// ---------------------------------------------------------------------------
// Subframe decoding against the RFC reference model (C03) and for panic
// freedom on arbitrary field values (C04).
//
// Shape of a harness = the *structural* fields of the stream, pinned to
// concrete values in the script (subframe type code, wasted-bits flag, residual
// coding method, partition order) plus bits-per-sample and block length.
// Everything else - samples, warm-up, precision, shift, coefficients, Rice
// parameters, escape widths, unary quotients, residual bits, the wasted-bits
// count - is symbolic.  Reads never fail in these harnesses (see DESIGN 2.2:
// an Err(io::Error) on the path defeats constant folding); truncation is
// covered by the c04_read_residuals_any* harnesses.
// ---------------------------------------------------------------------------

macro_rules! sub_diff {
    ($name:ident, $int:ty, $max:expr, $bps:expr, $n:expr, $slots:expr, $umask:expr, [$( ($idx:expr, $val:expr) ),*]) => {
        #[kani::proof]
        #[kani::unwind(10)]
        fn $name() {
            let mut vals: [u64; $slots] = kani::any();
            $( vals[$idx] = $val; )*
            let mut r1 = ModelBits::new(Script::new(&vals), $umask);
            let mut ch = [0 as $int; $n];
            let res = read_subframe::<$max, _, $int>(
                &mut r1,
                SignedBitCount::<$max>::new::<$bps>(),
                &mut ch,
            );
            let mut r2 = ModelBits::new(Script::new(&vals), $umask);
            let mut exp = [0i128; $n];
            let verdict = refmodel::subframe(&mut r2, $bps, $n, &mut exp);
            if verdict == refmodel::Verdict::Valid {
                // C03: a valid subframe decodes to exactly the RFC's samples
                assert!(res.is_ok());
                let mut i = 0;
                while i < $n {
                    assert!(i128::from(ch[i]) == exp[i]);
                    i += 1;
                }
                assert!(r1.pos == r2.pos);
            }
            kani::cover!(verdict == refmodel::Verdict::Valid);
            std::mem::forget(res);
        }
    };
}

// layout of the pinned slots: [0]=padding bit, [1]=6-bit type code, [2]=wasted flag,
// FIXED order k (no wasted bits): [3+k]=coding method, [4+k]=partition order
// LPC order k (no wasted bits): [3+k]=precision-1, [4+k]=shift, [5+k..5+2k]=coefficients, [5+2k]=method, [6+2k]=partition order

// @harness prop=C03,C04 tier=quick expect=pass timeout=300
// @units decode::read_subframe<32,i32> stream::SubframeHeader::from_reader
// @bound CONSTANT subframe, 16 bps, block 3, wasted-bits flag set with symbolic unary count <= 63 (covers wasted >= bps), sample value symbolic
// @oracle reference model verdict Valid => Ok, identical samples, identical bit position; never a failed check
sub_diff!(c03_sub_const_b16_w, i32, 32, 16, 3, 6, 63, [(0, 0), (1, 0), (2, 1)]);

// @harness prop=C03,C04 tier=thorough expect=pass timeout=300
// @units decode::read_subframe<32,i32>
// @bound CONSTANT subframe, 32 bps, block 2, no wasted bits
sub_diff!(c03_sub_const_b32, i32, 32, 32, 2, 5, 63, [(0, 0), (1, 0), (2, 0)]);

// @harness prop=C03,C04 tier=thorough expect=pass timeout=300
// @units decode::read_subframe<33,i64>
// @bound CONSTANT subframe on the 33-bit side-channel path, block 2, wasted-bits flag set (count symbolic <= 63)
sub_diff!(c03_sub_const_wide_w, i64, 33, 33, 2, 6, 63, [(0, 0), (1, 0), (2, 1)]);

// @harness prop=C03,C04 tier=quick expect=pass timeout=300
// @units decode::read_subframe<32,i32>
// @bound VERBATIM subframe, 16 bps, block 3, wasted-bits flag set (count symbolic <= 63), samples symbolic
sub_diff!(c03_sub_verbatim_b16_w, i32, 32, 16, 3, 8, 63, [(0, 0), (1, 1), (2, 1)]);

// @harness prop=C03,C04 tier=thorough expect=pass timeout=300
// @units decode::read_subframe<32,i32>
// @bound VERBATIM subframe, 4 bps (STREAMINFO-referenced depth), block 4, no wasted bits
sub_diff!(c03_sub_verbatim_b4, i32, 32, 4, 4, 8, 63, [(0, 0), (1, 1), (2, 0)]);

// @harness prop=C03,C04 tier=quick expect=pass timeout=300
// @units decode::read_subframe<33,i64>
// @bound VERBATIM subframe on the 33-bit side-channel path, block 2
sub_diff!(c03_sub_verbatim_wide, i64, 33, 33, 2, 6, 63, [(0, 0), (1, 1), (2, 0)]);

// @harness prop=C03,C04 tier=thorough expect=pass timeout=600
// @units decode::read_subframe<32,i32> decode::read_fixed_subframe decode::read_residuals decode::predict
// @bound FIXED order 0, 16 bps, block 2, Rice method 0, partition order 0; Rice parameter/escape width/quotients (<= 7)/residual bits symbolic
sub_diff!(c03_sub_fixed0_b16_n2, i32, 32, 16, 2, 12, 7, [(0, 0), (1, 8), (2, 0), (3, 0), (4, 0)]);

// @harness prop=C03,C04 tier=quick expect=pass timeout=600
// @units decode::read_subframe<32,i32> decode::read_fixed_subframe decode::read_residuals decode::predict
// @bound FIXED order 1, 16 bps, block 3, Rice method 0, partition order 0
sub_diff!(c03_sub_fixed1_b16_n3, i32, 32, 16, 3, 13, 7, [(0, 0), (1, 9), (2, 0), (4, 0), (5, 0)]);

// @harness prop=C03,C04 tier=quick expect=pass timeout=600
// @units decode::read_subframe<32,i32> decode::read_fixed_subframe decode::read_residuals decode::predict
// @bound FIXED order 2, 32 bps (full-scale warm-up), block 4, Rice2 method 1 (5-bit parameters), partition order 0
sub_diff!(c03_sub_fixed2_b32_n4, i32, 32, 32, 4, 14, 7, [(0, 0), (1, 10), (2, 0), (5, 1), (6, 0)]);

// @harness prop=C03,C04 tier=quick expect=pass timeout=600
// @units decode::read_subframe<32,i32> decode::read_fixed_subframe decode::read_residuals decode::predict
// @bound FIXED order 1, 16 bps, block 3, Rice2 method 1 at a depth where the encoder never uses it: every 5-bit parameter (incl. >= 16 and the 11111 escape with every width, 0 included), quotients <= 7
sub_diff!(c03_sub_fixed1_b16_n3_rice2, i32, 32, 16, 3, 13, 7, [(0, 0), (1, 9), (2, 0), (4, 1), (5, 0)]);

// @harness prop=C03,C04 tier=thorough expect=pass timeout=600
// @units decode::read_subframe<32,i32> decode::read_fixed_subframe decode::read_residuals decode::predict
// @bound FIXED order 3, 8 bps, block 5, method 0, partition order 0
sub_diff!(c03_sub_fixed3_b8_n5, i32, 32, 8, 5, 15, 7, [(0, 0), (1, 11), (2, 0), (6, 0), (7, 0)]);

// @harness prop=C03,C04 tier=thorough expect=pass timeout=600
// @units decode::read_subframe<32,i32> decode::read_fixed_subframe decode::read_residuals decode::predict
// @bound FIXED order 4, 24 bps, block 6, method 0, partition order 0
sub_diff!(c03_sub_fixed4_b24_n6, i32, 32, 24, 6, 16, 7, [(0, 0), (1, 12), (2, 0), (7, 0), (8, 0)]);

// @harness prop=C03,C04 tier=thorough expect=pass timeout=600
// @units decode::read_subframe<32,i32> decode::read_fixed_subframe decode::read_residuals decode::predict
// @bound FIXED order 1, 16 bps, block 4, method 1, partition order 1 (two partitions: 1 + 2 residuals)
sub_diff!(c03_sub_fixed1_b16_n4_po1, i32, 32, 16, 4, 18, 7, [(0, 0), (1, 9), (2, 0), (4, 1), (5, 1)]);

// @harness prop=C03,C04 tier=quick expect=pass timeout=600
// @units decode::read_subframe<32,i32> decode::read_lpc_subframe decode::read_residuals decode::predict
// @bound LPC order 1, 16 bps, block 3, method 0, partition order 0; precision field pinned to 3 bits (coefficient in -4..=3), shift (5-bit signed) and coefficient symbolic
sub_diff!(c03_sub_lpc1_b16_n3_p3, i32, 32, 16, 3, 16, 7, [(0, 0), (1, 32), (2, 0), (4, 2), (7, 0), (8, 0)]);


// @harness prop=C03,C04 tier=quick expect=pass timeout=900
// @units decode::read_subframe<32,i32> decode::read_lpc_subframe decode::read_residuals decode::predict
// @bound LPC order 2, 32 bps (full-scale warm-up), block 4, method 1, partition order 0; precision pinned to 4 bits (coefficients -8..=7), shift and both coefficients symbolic
sub_diff!(c03_sub_lpc2_b32_n4_p4, i32, 32, 32, 4, 18, 7, [(0, 0), (1, 33), (2, 0), (5, 3), (9, 1), (10, 0)]);


// @harness prop=C03,C04 tier=quick expect=pass timeout=900
// @units decode::read_subframe<33,i64> decode::read_lpc_subframe decode::read_residuals(i64) decode::predict<i64>
// @bound LPC order 1 on the 33-bit side-channel path, block 3, method 0, partition order 0; precision pinned to 3 bits
sub_diff!(c03_sub_lpc1_wide_n3_p3, i64, 33, 33, 3, 16, 7, [(0, 0), (1, 32), (2, 0), (4, 2), (7, 0), (8, 0)]);



// @harness prop=C03,C04 tier=thorough expect=pass timeout=1800
// @units decode::read_subframe<32,i32> decode::read_fixed_subframe decode::read_residuals decode::predict
// @bound FIXED order 1, 16 bps, block 8, method 0, partition order 2 (partitions of 1,2,2,2 residuals)
sub_diff!(c03_sub_fixed1_b16_n8_po2, i32, 32, 16, 8, 28, 7, [(0, 0), (1, 9), (2, 0), (4, 0), (5, 2)]);

// @harness prop=C03,C04 tier=thorough expect=pass timeout=1800
// @units decode::read_subframe<32,i32> decode::read_lpc_subframe decode::read_residuals decode::predict
// @bound LPC order 3, 16 bps, block 5, method 0, partition order 0, precision pinned to 3 bits (coefficient precisions above 4 bits did not finish in 2400-3000 s at any order: the 15-bit coefficient range named in the property is outside the claim)
sub_diff!(c03_sub_lpc3_b16_n5_p3, i32, 32, 16, 5, 22, 7, [(0, 0), (1, 34), (2, 0), (6, 2), (11, 0), (12, 0)]);

// @harness prop=C03,C04 tier=thorough expect=pass timeout=1800
// @units decode::read_subframe<32,i32> decode::read_lpc_subframe decode::read_residuals decode::predict
// @bound LPC order 4, 24 bps, block 6, method 1, partition order 0, precision pinned to 3 bits
sub_diff!(c03_sub_lpc4_b24_n6_p3, i32, 32, 24, 6, 26, 7, [(0, 0), (1, 35), (2, 0), (7, 2), (13, 1), (14, 0)]);

// @harness prop=C03,C04 tier=thorough expect=pass timeout=1800
// @units decode::read_subframe<32,i32> decode::read_fixed_subframe decode::read_residuals decode::predict
// @bound FIXED order 2, 12 bps, block 4, wasted-bits flag set (count symbolic <= 7 ... unary mask 7), method 0, partition order 0
sub_diff!(c03_sub_fixed2_b12_n4_w, i32, 32, 12, 4, 16, 7, [(0, 0), (1, 10), (2, 1), (6, 0), (7, 0)]);

// vacuity twin for the sub_diff family: the Valid branch is reachable
// @harness prop=C03,C04 tier=quick expect=fail timeout=600
// @units decode::read_subframe<32,i32>
// @bound reachability witness: same shape as c03_sub_fixed1_b16_n3 with a final assert(false) inside the Valid branch
#[kani::proof]
#[kani::unwind(10)]
fn c03_sub_fixed1_twin() {
    let mut vals: [u64; 13] = kani::any();
    vals[0] = 0;
    vals[1] = 9;
    vals[2] = 0;
    vals[4] = 0;
    vals[5] = 0;
    let mut r1 = ModelBits::new(Script::new(&vals), 7);
    let mut ch = [0i32; 3];
    let res = read_subframe::<32, _, i32>(&mut r1, SignedBitCount::<32>::new::<16>(), &mut ch);
    let mut r2 = ModelBits::new(Script::new(&vals), 7);
    let mut exp = [0i128; 3];
    let verdict = refmodel::subframe(&mut r2, 16, 3, &mut exp);
    if verdict == refmodel::Verdict::Valid && res.is_ok() {
        assert!(false);
    }
    std::mem::forget(res);
}

// Fully nondeterministic stream, end of data possible at every read: the only
// harness family that explores truncation inside the residual section.
// @harness prop=C04 tier=thorough expect=pass timeout=2400
// @units decode::read_residuals decode::read_residuals::read_block stream::ResidualPartitionHeader::from_reader
// @bound 2 residual slots; predictor order 0..=2; coding method, 4-bit partition order (all 16), rice/escape parameters and every residual field symbolic; unary run <= 7; end of data possible at every read
#[kani::proof]
#[kani::unwind(6)]
fn c04_read_residuals_any_n2() {
    let mut r = SymBits::arbitrary(7);
    let order: usize = kani::any();
    kani::assume(order <= 2);
    let mut res = [0i32; 2];
    let x = read_residuals(&mut r, order, &mut res);
    std::mem::forget(x);
}

// @harness prop=C04 tier=thorough expect=pass timeout=2400
// @units decode::read_residuals(i64) decode::read_residuals::read_block
// @bound wide (33-bit side channel) instantiation, 2 residual slots, predictor order 1, otherwise as c04_read_residuals_any_n2
#[kani::proof]
#[kani::unwind(6)]
fn c04_read_residuals_any_wide_n2() {
    let mut r = SymBits::arbitrary(7);
    let mut res = [0i64; 2];
    let x = read_residuals(&mut r, 1, &mut res);
    std::mem::forget(x);
}

// every partition order a 4-bit field can hold, for a tiny block: too-large
// orders must be an error, never a panic (finding F01)
// @harness prop=C04,C05 tier=quick expect=pass timeout=600
// @units decode::read_residuals decode::read_residuals::read_block
// @bound block 4 (predictor order 1, 3 residuals), coding methods 0 and 1, partition order pinned to each of 0..=15 in turn, all other fields symbolic
// @oracle partition order > 2 (block not divisible / smaller than the partition count) => Err(InvalidPartitionOrder); never a failed check
#[kani::proof]
#[kani::unwind(17)]
fn c04_residuals_every_partition_order() {
    let mut po = 0u64;
    while po < 16 {
        let mut vals: [u64; 16] = kani::any();
        vals[0] = if po % 2 == 0 { 0 } else { 1 };
        vals[1] = po;
        let mut r = ModelBits::new(Script::new(&vals), 7);
        let mut res = [0i32; 3];
        let x = read_residuals(&mut r, 1, &mut res);
        if po > 2 {
            assert!(matches!(x, Err(Error::InvalidPartitionOrder)));
        }
        std::mem::forget(x);
        po += 1;
    }
}

// illegal subframe parameters must be rejected (C05 must-reject classes)
macro_rules! sub_reject {
    ($name:ident, $bps:expr, $n:expr, $slots:expr, [$( ($idx:expr, $val:expr) ),*], $trip:expr, $pat:pat) => {
        #[kani::proof]
        #[kani::unwind(10)]
        fn $name() {
            let mut vals: [u64; $slots] = kani::any();
            $( vals[$idx] = $val; )*
            let mut src = Script::new(&vals);
            // no field may be consumed after the one that makes the input illegal
            src.trip_at = $trip;
            let mut r = ModelBits::new(src, 63);
            let mut ch = [0i32; $n];
            let res = read_subframe::<32, _, i32>(&mut r, SignedBitCount::<32>::new::<$bps>(), &mut ch);
            assert!(matches!(res, $pat));
            std::mem::forget(res);
        }
    };
}

// @harness prop=C04,C05 tier=quick expect=pass timeout=300
// @units decode::read_subframe<32,i32> stream::SubframeHeader::from_reader
// @bound reserved type code 0b000010 pinned (the whole reserved table is decided on SubframeHeaderType::from_reader in k_stream.rs)
// @oracle Err(InvalidSubframeHeaderType)
sub_reject!(c05_sub_reserved_type_2, 16, 2, 4, [(0, 0), (1, 2)], 2, Err(Error::InvalidSubframeHeaderType));

// @harness prop=C04,C05 tier=quick expect=pass timeout=300
// @units decode::read_subframe<32,i32> stream::SubframeHeader::from_reader
// @bound reserved type code 0b001101 pinned
// @oracle Err(InvalidSubframeHeaderType)
sub_reject!(c05_sub_reserved_type_13, 16, 2, 4, [(0, 0), (1, 13)], 2, Err(Error::InvalidSubframeHeaderType));

// @harness prop=C04,C05 tier=quick expect=pass timeout=300
// @units decode::read_subframe<32,i32> stream::SubframeHeader::from_reader
// @bound subframe padding bit set
// @oracle Err(InvalidSubframeHeader)
sub_reject!(c05_sub_padding_bit_set, 16, 2, 4, [(0, 1)], 1, Err(Error::InvalidSubframeHeader));

// @harness prop=C05 tier=quick expect=pass timeout=300
// @units decode::read_lpc_subframe
// @bound LPC order 1, 16 bps, block 3, precision field pinned to 0b1111
// @oracle Err(InvalidQlpPrecision)
sub_reject!(c05_sub_lpc_precision_1111, 16, 3, 12, [(0, 0), (1, 32), (2, 0), (4, 15)], 5, Err(Error::InvalidQlpPrecision));

// @harness prop=C05 tier=quick expect=pass timeout=300
// @units decode::read_lpc_subframe
// @bound LPC order 1, 16 bps, block 3, precision pinned to a legal value, 5-bit shift field pinned to 0b10000 (-16)
// @oracle Err(NegativeLpcShift)
sub_reject!(c05_sub_lpc_negative_shift_m16, 16, 3, 12, [(0, 0), (1, 32), (2, 0), (4, 5), (5, 16)], 6, Err(Error::NegativeLpcShift));

// @harness prop=C05 tier=quick expect=pass timeout=300
// @units decode::read_lpc_subframe
// @bound as above with shift field 0b11111 (-1)
// @oracle Err(NegativeLpcShift)
sub_reject!(c05_sub_lpc_negative_shift_m1, 16, 3, 12, [(0, 0), (1, 32), (2, 0), (4, 5), (5, 31)], 6, Err(Error::NegativeLpcShift));

// @harness prop=C05 tier=quick expect=pass timeout=300
// @units decode::read_residuals
// @bound FIXED order 0, block 2, residual coding method pinned to 2 and to 3
// @oracle Err(InvalidCodingMethod)
sub_reject!(c05_sub_coding_method_2, 16, 2, 8, [(0, 0), (1, 8), (2, 0), (3, 2)], 4, Err(Error::InvalidCodingMethod));

// @harness prop=C05 tier=quick expect=pass timeout=300
// @units decode::read_residuals
// @bound as above with method 3
// @oracle Err(InvalidCodingMethod)
sub_reject!(c05_sub_coding_method_3, 16, 2, 8, [(0, 0), (1, 8), (2, 0), (3, 3)], 4, Err(Error::InvalidCodingMethod));

// @harness prop=C05 tier=quick expect=pass timeout=300
// @units decode::read_fixed_subframe
// @bound FIXED order 4 in a block of 3 samples (order exceeds the block)
// @oracle Err(InvalidFixedOrder)
sub_reject!(c05_sub_fixed_order_exceeds_block, 16, 3, 8, [(0, 0), (1, 12), (2, 0)], 3, Err(Error::InvalidFixedOrder));

// @harness prop=C05 tier=quick expect=pass timeout=300
// @units decode::read_lpc_subframe
// @bound LPC order 4 in a block of 3 samples
// @oracle Err(InvalidLpcOrder)
sub_reject!(c05_sub_lpc_order_exceeds_block, 16, 3, 8, [(0, 0), (1, 35), (2, 0)], 3, Err(Error::InvalidLpcOrder));

// @harness prop=C05 tier=quick expect=pass timeout=300
// @units decode::read_residuals::read_block
// @bound FIXED order 1, block 5 (odd), partition order 1: the block is not divisible by the partition count
// @oracle Err(InvalidPartitionOrder)
sub_reject!(c05_sub_partition_not_dividing, 16, 5, 20, [(0, 0), (1, 9), (2, 0), (4, 0), (5, 1)], 6, Err(Error::InvalidPartitionOrder));

macro_rules! c04_predict_fixed {
    ($name:ident, $order:expr, $n:expr) => {
        #[kani::proof]
        #[kani::unwind(10)]
        fn $name() {
            let mut ch: [i32; $n] = kani::any();
            predict(SubframeHeaderType::FIXED_COEFFS[$order], 0, &mut ch);
        }
    };
}

// @harness prop=C04 tier=quick expect=pass timeout=300
// @units decode::predict<i32>
// @bound FIXED order 1, 3 arbitrary 32-bit values (warm-up + residuals as a malformed stream can deliver them)
c04_predict_fixed!(c04_predict_fixed_o1, 1, 3);

// @harness prop=C04 tier=quick expect=pass timeout=300
// @units decode::predict<i32>
// @bound FIXED order 2, 4 arbitrary 32-bit values
c04_predict_fixed!(c04_predict_fixed_o2, 2, 4);

// @harness prop=C04 tier=quick expect=pass timeout=300
// @units decode::predict<i32>
// @bound FIXED order 4, 5 arbitrary 32-bit values
c04_predict_fixed!(c04_predict_fixed_o4, 4, 5);

// @harness prop=C04 tier=quick expect=pass timeout=600
// @units decode::predict<i32>
// @bound LPC order 2, coefficients any 15-bit signed, shift 0..=15 (all a 5-bit non-negative field can hold), 4 arbitrary 32-bit values
#[kani::proof]
#[kani::unwind(10)]
fn c04_predict_lpc_o2() {
    let c: [i16; 2] = kani::any();
    kani::assume(c[0] >= -16384 && c[0] < 16384 && c[1] >= -16384 && c[1] < 16384);
    let coeffs = [i64::from(c[0]), i64::from(c[1])];
    let shift: u32 = kani::any();
    kani::assume(shift <= 15);
    let mut ch: [i32; 4] = kani::any();
    predict(&coeffs, shift, &mut ch);
}

// @harness prop=C04 tier=quick expect=pass timeout=600
// @units decode::predict<i64>
// @bound wide instantiation: LPC order 2, 15-bit coefficients, shift 0..=15, 4 values each within 33 bits plus a 32-bit residual range
#[kani::proof]
#[kani::unwind(10)]
fn c04_predict_wide_lpc_o2() {
    let c: [i16; 2] = kani::any();
    kani::assume(c[0] >= -16384 && c[0] < 16384 && c[1] >= -16384 && c[1] < 16384);
    let coeffs = [i64::from(c[0]), i64::from(c[1])];
    let shift: u32 = kani::any();
    kani::assume(shift <= 15);
    let mut ch: [i64; 4] = kani::any();
    for v in ch.iter() {
        kani::assume(*v >= -(1i64 << 33) && *v < (1i64 << 33));
    }
    predict(&coeffs, shift, &mut ch);
}

// Frame restoration: every subframe is VERBATIM with no wasted bits (concrete
// header fields), every sample field is symbolic, so the channels handed to the
// inter-channel restoration are arbitrary in-type values - what a malformed but
// checksum-correct frame can deliver.
fn restore_script2(a: [u64; 2], b: [u64; 2], crc: u64) -> [u64; 11] {
    [0, 1, 0, a[0], a[1], 0, 1, 0, b[0], b[1], crc]
}

macro_rules! c04_restore {
    ($name:ident, $ca:expr, $bps:expr) => {
        #[kani::proof]
        #[kani::unwind(12)]
        fn $name() {
            let vals = restore_script2(kani::any(), kani::any(), kani::any());
            let mut r = ModelBits::new(Script::new(&vals), 63);
            let mut buf = Frame::default();
            let h = hdr(2, $ca, $bps);
            let res = read_subframes(&mut r, &h, &mut buf);
            kani::cover!(res.is_ok());
            if res.is_ok() {
                assert!(buf.pcm_frames() == 2);
            }
            std::mem::forget(buf);
        }
    };
}

// @harness prop=C04 tier=thorough expect=pass timeout=600
// @units decode::read_subframes(LeftSide) decode::read_subframe audio::Frame::resized_stereo
// @bound block size 2, stereo LeftSide, 16 bits-per-sample, 4 arbitrary in-type samples (VERBATIM subframes)
c04_restore!(c04_restore_leftside_b16, ChannelAssignment::LeftSide, BitsPerSample::Bps16);

// @harness prop=C04 tier=thorough expect=pass timeout=600
// @units decode::read_subframes(LeftSide) decode::read_subframe audio::Frame::resized_stereo
// @bound block size 2, stereo LeftSide, 31 bits-per-sample (STREAMINFO-referenced; side channel fills an i32), 4 arbitrary in-type samples (VERBATIM subframes)
c04_restore!(c04_restore_leftside_b31, ChannelAssignment::LeftSide, BitsPerSample::Streaminfo(sbc32(31)));

// @harness prop=C04 tier=quick expect=pass timeout=600
// @units decode::read_subframes(LeftSide) decode::read_subframe audio::Frame::resized_stereo
// @bound block size 2, stereo LeftSide, 32 bits-per-sample (33-bit side channel, i64 path), 4 arbitrary in-type samples (VERBATIM subframes)
c04_restore!(c04_restore_leftside_b32, ChannelAssignment::LeftSide, BitsPerSample::Bps32);

// @harness prop=C04 tier=quick expect=pass timeout=600
// @units decode::read_subframes(SideRight) decode::read_subframe audio::Frame::resized_stereo
// @bound block size 2, stereo SideRight, 16 bits-per-sample, 4 arbitrary in-type samples (VERBATIM subframes)
c04_restore!(c04_restore_sideright_b16, ChannelAssignment::SideRight, BitsPerSample::Bps16);

// @harness prop=C04 tier=thorough expect=pass timeout=600
// @units decode::read_subframes(SideRight) decode::read_subframe audio::Frame::resized_stereo
// @bound block size 2, stereo SideRight, 31 bits-per-sample (STREAMINFO-referenced; side channel fills an i32), 4 arbitrary in-type samples (VERBATIM subframes)
c04_restore!(c04_restore_sideright_b31, ChannelAssignment::SideRight, BitsPerSample::Streaminfo(sbc32(31)));

// @harness prop=C04 tier=quick expect=pass timeout=600
// @units decode::read_subframes(SideRight) decode::read_subframe audio::Frame::resized_stereo
// @bound block size 2, stereo SideRight, 32 bits-per-sample (33-bit side channel, i64 path), 4 arbitrary in-type samples (VERBATIM subframes)
c04_restore!(c04_restore_sideright_b32, ChannelAssignment::SideRight, BitsPerSample::Bps32);

// @harness prop=C04 tier=thorough expect=pass timeout=600
// @units decode::read_subframes(MidSide) decode::read_subframe audio::Frame::resized_stereo
// @bound block size 2, stereo MidSide, 16 bits-per-sample, 4 arbitrary in-type samples (VERBATIM subframes)
c04_restore!(c04_restore_midside_b16, ChannelAssignment::MidSide, BitsPerSample::Bps16);

// @harness prop=C04 tier=quick expect=pass timeout=600
// @units decode::read_subframes(MidSide) decode::read_subframe audio::Frame::resized_stereo
// @bound block size 2, stereo MidSide, 31 bits-per-sample (STREAMINFO-referenced; side channel fills an i32), 4 arbitrary in-type samples (VERBATIM subframes)
c04_restore!(c04_restore_midside_b31, ChannelAssignment::MidSide, BitsPerSample::Streaminfo(sbc32(31)));

// @harness prop=C04 tier=quick expect=pass timeout=600
// @units decode::read_subframes(MidSide) decode::read_subframe audio::Frame::resized_stereo
// @bound block size 2, stereo MidSide, 32 bits-per-sample (33-bit side channel, i64 path), 4 arbitrary in-type samples (VERBATIM subframes)
c04_restore!(c04_restore_midside_b32, ChannelAssignment::MidSide, BitsPerSample::Bps32);

// @harness prop=C04 tier=quick expect=pass timeout=600
// @units decode::read_subframes(Independent) audio::Frame::resized_channels
// @bound block size 2, 2 independent channels, 32 bits-per-sample
c04_restore!(
    c04_restore_independent_b32,
    ChannelAssignment::Independent(Independent::Stereo),
    BitsPerSample::Bps32
);

// Restoration correctness (C03): for channel values that a VALID stream can
// carry (the restored left/right samples fit the bit depth), the restored
// samples are exactly those of RFC 9639 section 4.2 / 9.1.3.
macro_rules! c03_restore {
    ($name:ident, $ca:expr, $bps_enum:expr, $bps:expr, $mode:expr) => {
        #[kani::proof]
        #[kani::unwind(12)]
        fn $name() {
            let a: [u64; 2] = kani::any();
            let b: [u64; 2] = kani::any();
            let vals = restore_script2(a, b, kani::any());
            let mut r = ModelBits::new(Script::new(&vals), 63);
            let mut buf = Frame::default();
            let h = hdr(2, $ca, $bps_enum);
            let res = read_subframes(&mut r, &h, &mut buf);
            assert!(res.is_ok());
            // reference: sign-extend the raw fields at the widths the RFC gives them
            let sx = |raw: u64, bits: u32| -> i128 {
                let v = (raw & mask64(bits)) as i128;
                if (v >> (bits - 1)) & 1 == 1 { v - (1i128 << bits) } else { v }
            };
            let mut k = 0;
            while k < 2 {
                // mode 0 left/side, 1 side/right, 2 mid/side
                let (l, rr): (i128, i128) = match $mode {
                    0 => {
                        let left = sx(a[k], $bps);
                        let side = sx(b[k], $bps + 1);
                        (left, left - side)
                    }
                    1 => {
                        let side = sx(a[k], $bps + 1);
                        let right = sx(b[k], $bps);
                        (side + right, right)
                    }
                    _ => {
                        let mid = sx(a[k], $bps);
                        let side = sx(b[k], $bps + 1);
                        let m2 = (mid << 1) | (side & 1);
                        ((m2 + side) >> 1, (m2 - side) >> 1)
                    }
                };
                if refmodel::fits(l, $bps) && refmodel::fits(rr, $bps) {
                    let mut it = buf.channels();
                    let c0 = it.next().unwrap();
                    let c1 = it.next().unwrap();
                    assert!(i128::from(c0[k]) == l);
                    assert!(i128::from(c1[k]) == rr);
                }
                k += 1;
            }
            kani::cover!(res.is_ok());
            std::mem::forget(res);
            std::mem::forget(buf);
        }
    };
}

// @harness prop=C03 tier=quick expect=pass timeout=600
// @units decode::read_subframes(LeftSide)
// @bound block 2, LEFT_SIDE, 16 bps, every pair of in-type channel values whose restored samples fit 16 bits
// @oracle restored (left, right) == (left, left - side) computed in i128
c03_restore!(c03_restore_leftside_b16, ChannelAssignment::LeftSide, BitsPerSample::Bps16, 16, 0);

// @harness prop=C03 tier=quick expect=pass timeout=600
// @units decode::read_subframes(SideRight)
// @bound block 2, SIDE_RIGHT, 31 bps (STREAMINFO-referenced; 32-bit side channel in an i32)
// @oracle restored (left, right) == (side + right, right)
c03_restore!(c03_restore_sideright_b31, ChannelAssignment::SideRight, BitsPerSample::Streaminfo(sbc32(31)), 31, 1);

// @harness prop=C03 tier=quick expect=pass timeout=600
// @units decode::read_subframes(MidSide)
// @bound block 2, MID_SIDE, 16 bps
// @oracle restored == RFC mid/side reconstruction ((mid<<1 | side&1) +/- side) >> 1
c03_restore!(c03_restore_midside_b16, ChannelAssignment::MidSide, BitsPerSample::Bps16, 16, 2);

// @harness prop=C03 tier=quick expect=pass timeout=600
// @units decode::read_subframes(MidSide,32bps)
// @bound block 2, MID_SIDE at 32 bps (33-bit side channel, i64 path)
// @oracle restored == RFC mid/side reconstruction
c03_restore!(c03_restore_midside_b32, ChannelAssignment::MidSide, BitsPerSample::Bps32, 32, 2);

// @harness prop=C03 tier=quick expect=pass timeout=600
// @units decode::read_subframes(LeftSide,32bps)
// @bound block 2, LEFT_SIDE at 32 bps (33-bit side channel)
c03_restore!(c03_restore_leftside_b32, ChannelAssignment::LeftSide, BitsPerSample::Bps32, 32, 0);

// @harness prop=C03 tier=quick expect=pass timeout=600
// @units decode::read_subframes(SideRight,32bps)
// @bound block 2, SIDE_RIGHT at 32 bps (33-bit side channel)
c03_restore!(c03_restore_sideright_b32, ChannelAssignment::SideRight, BitsPerSample::Bps32, 32, 1);

// @harness prop=C03 tier=thorough expect=pass timeout=600
// @units decode::read_subframes(MidSide)
// @bound block 2, MID_SIDE, 31 bps
c03_restore!(c03_restore_midside_b31, ChannelAssignment::MidSide, BitsPerSample::Streaminfo(sbc32(31)), 31, 2);

// @harness prop=C03 tier=thorough expect=pass timeout=600
// @units decode::read_subframes(LeftSide)
// @bound block 2, LEFT_SIDE, 8 bps
c03_restore!(c03_restore_leftside_b8, ChannelAssignment::LeftSide, BitsPerSample::Bps8, 8, 0);

// @harness prop=C03 tier=thorough expect=pass timeout=600
// @units decode::read_subframes(SideRight)
// @bound block 2, SIDE_RIGHT, 24 bps
c03_restore!(c03_restore_sideright_b24, ChannelAssignment::SideRight, BitsPerSample::Bps24, 24, 1);

// vacuity twin: same harness shape with a final assert(false) must FAIL
// @harness prop=C04 tier=quick expect=fail timeout=600
// @units decode::read_subframes(MidSide)
// @bound reachability witness for the c04_restore_* family: the end of the harness is reachable
#[kani::proof]
#[kani::unwind(12)]
fn c04_restore_midside_twin() {
    let vals = restore_script2(kani::any(), kani::any(), kani::any());
    let mut r = ModelBits::new(Script::new(&vals), 63);
    let mut buf = Frame::default();
    let h = hdr(2, ChannelAssignment::MidSide, BitsPerSample::Bps16);
    let res = read_subframes(&mut r, &h, &mut buf);
    if res.is_ok() {
        assert!(false);
    }
    std::mem::forget(buf);
}


// ===========================================================================
// C06 slice (i): Decoder::seek - seek-table lookup and repositioning
// ===========================================================================

use crate::metadata::{SeekPoint, Streaminfo};

/// a seekable source that only records where it was told to go
pub struct PosReader {
    pub pos: u64,
    pub seeks: u32,
}

impl std::io::Read for PosReader {
    fn read(&mut self, _buf: &mut [u8]) -> std::io::Result<usize> {
        Ok(0)
    }
}

impl std::io::Seek for PosReader {
    fn seek(&mut self, to: std::io::SeekFrom) -> std::io::Result<u64> {
        self.seeks += 1;
        match to {
            std::io::SeekFrom::Start(p) => {
                self.pos = p;
                Ok(p)
            }
            _ => {
                kani::assert(false, "only absolute seeks are expected from Decoder::seek");
                Ok(self.pos)
            }
        }
    }
}

fn model_streaminfo(channels: u8, bps: u32, total: u64) -> Streaminfo {
    Streaminfo {
        minimum_block_size: 16,
        maximum_block_size: 16,
        minimum_frame_size: None,
        maximum_frame_size: None,
        sample_rate: 44100,
        channels: NonZero::new(channels).unwrap(),
        bits_per_sample: sbc32(bps),
        total_samples: NonZero::new(total),
        md5: None,
    }
}

fn any_seekpoint() -> SeekPoint {
    if kani::any() {
        SeekPoint::Placeholder
    } else {
        SeekPoint::Defined {
            sample_offset: kani::any(),
            byte_offset: kani::any(),
            frame_samples: kani::any(),
        }
    }
}

// @harness prop=C06 tier=quick expect=pass timeout=900
// @units decode::Decoder::seek metadata::contiguous::Contiguous::try_from metadata::SeekPoint::is_next
// @bound seek table of 3 points, each a placeholder or a defined point with arbitrary 64-bit sample/byte offsets (only tables the block reader accepts: ascending, placeholders last); arbitrary target sample; arbitrary first-frame offset below 2^32
// @assume frames_start < 2^32 and byte offsets < 2^62 (offsets near 2^64 overflow frames_start + byte_offset: a file cannot be that long)
// @oracle lands on the last defined point at or before the target (the stream start if none): source positioned at frames_start + that point's byte offset, current sample = returned sample = that point's sample
#[kani::proof]
#[kani::unwind(6)]
fn c06_decoder_seek_table3() {
    let pts = [any_seekpoint(), any_seekpoint(), any_seekpoint()];
    let table = crate::metadata::contiguous::Contiguous::<{ SeekTable::MAX_POINTS }, SeekPoint>::try_from(
        vec![pts[0].clone(), pts[1].clone(), pts[2].clone()],
    );
    kani::assume(table.is_ok());
    let mut blocks = BlockList::new(model_streaminfo(1, 16, 0));
    blocks.insert(SeekTable { points: table.unwrap() });
    let mut d = Decoder::new(PosReader { pos: 0, seeks: 0 }, blocks);
    d.current_sample = kani::any();
    let frames_start: u64 = kani::any();
    kani::assume(frames_start < (1 << 32));
    let target: u64 = kani::any();
    // reference: scan for the last defined point <= target
    let mut want_sample: u64 = 0;
    let mut want_byte: u64 = 0;
    let mut i = 0;
    while i < 3 {
        if let SeekPoint::Defined { sample_offset, byte_offset, .. } = &pts[i] {
            kani::assume(*byte_offset < (1 << 62));
            if *sample_offset <= target {
                want_sample = *sample_offset;
                want_byte = *byte_offset;
            }
        }
        i += 1;
    }
    let r = d.seek(frames_start, target);
    assert!(matches!(r, Ok(s) if s == want_sample));
    assert!(d.current_sample == want_sample);
    assert!(d.reader.pos == frames_start + want_byte && d.reader.seeks == 1);
    kani::cover!(want_sample > 0 && want_sample < target);
    kani::cover!(matches!(pts[2], SeekPoint::Placeholder) && want_sample > 0);
    std::mem::forget(r);
    std::mem::forget(d);
}

// @harness prop=C06 tier=quick expect=pass timeout=600
// @units decode::Decoder::seek
// @bound no seek table at all; arbitrary target and first-frame offset
// @oracle rewinds to the first frame: position frames_start, current sample 0
#[kani::proof]
#[kani::unwind(4)]
fn c06_decoder_seek_no_table() {
    let blocks = BlockList::new(model_streaminfo(2, 16, 0));
    let mut d = Decoder::new(PosReader { pos: 7, seeks: 0 }, blocks);
    d.current_sample = kani::any();
    let frames_start: u64 = kani::any();
    let target: u64 = kani::any();
    let r = d.seek(frames_start, target);
    assert!(matches!(r, Ok(0)));
    assert!(d.current_sample == 0 && d.reader.pos == frames_start);
    std::mem::forget(r);
    std::mem::forget(d);
}

// @harness prop=C04,C06 tier=quick expect=pass timeout=600
// @units decode::Decoder::seek
// @bound seek table of 1 defined point with arbitrary 64-bit sample and byte offsets (as a malformed file can declare), arbitrary target and first-frame offset
// @oracle no panic (frames_start + byte_offset must not overflow); an unreachable offset is an error
#[kani::proof]
#[kani::unwind(4)]
fn c04_decoder_seek_any_offsets() {
    let p = SeekPoint::Defined {
        sample_offset: kani::any(),
        byte_offset: kani::any(),
        frame_samples: kani::any(),
    };
    let table = crate::metadata::contiguous::Contiguous::<{ SeekTable::MAX_POINTS }, SeekPoint>::try_from(vec![p]);
    kani::assume(table.is_ok());
    let mut blocks = BlockList::new(model_streaminfo(1, 16, 0));
    blocks.insert(SeekTable { points: table.unwrap() });
    let mut d = Decoder::new(PosReader { pos: 0, seeks: 0 }, blocks);
    let r = d.seek(kani::any(), kani::any());
    kani::cover!(r.is_ok());
    kani::cover!(r.is_err());
    std::mem::forget(r);
    std::mem::forget(d);
}

// ===========================================================================
// C06 slice (ii): position arithmetic of the byte reader's std::io::Seek
// ===========================================================================

/// stand-in for Decoder::seek: records the requested sample in
/// `current_sample` and fails, so that the front-end returns right after
/// computing its request
fn stub_seek_record<R: std::io::Seek>(d: &mut Decoder<R>, _frames_start: u64, sample: u64) -> Result<u64, Error> {
    d.current_sample = sample;
    Err(Error::InvalidSeek)
}

// @harness prop=C06 tier=quick expect=pass timeout=900 replay=driver
// @units decode::FlacByteReader::seek (position arithmetic up to the call of Decoder::seek)
// @stubs decode::Decoder::seek
// @bound every SeekFrom variant with arbitrary offset; channels 1..=8, depth 1..=32, total samples 1..2^36-1 or unknown, current sample <= total, 0 or 3 undelivered bytes in the buffer
// @assume reader invariant: buffered bytes <= current_sample * bytes-per-PCM-frame; current_sample <= total
// @oracle std::io::Seek semantics over the decoded PCM bytes: target = Start(p) | position + Current(o) | total*bytes_per_frame + End(o); the sample asked of the decoder is floor(target / bytes-per-PCM-frame); Current(0) reports the position without seeking; negative targets and End(o > 0) are errors; unknown total makes End an error
#[kani::proof]
#[kani::unwind(6)]
#[kani::stub(Decoder::seek, stub_seek_record)]
fn c06_byte_reader_seek_arithmetic() {
    use std::io::{Seek, SeekFrom};
    let channels: u8 = kani::any();
    kani::assume(channels >= 1 && channels <= 8);
    let bps: u32 = kani::any();
    kani::assume(bps >= 1 && bps <= 32);
    let total: u64 = kani::any();
    kani::assume(total < (1 << 36));
    let cur: u64 = kani::any();
    kani::assume(total == 0 || cur <= total);
    kani::assume(cur < (1 << 36));
    let bpf = u64::from((bps + 7) / 8) * u64::from(channels);
    let buffered: usize = if kani::any() { 3 } else { 0 };
    kani::assume(buffered as u64 <= cur * bpf);
    let mut d = Decoder::new(PosReader { pos: 0, seeks: 0 }, BlockList::new(model_streaminfo(channels, bps, total)));
    d.current_sample = cur;
    let mut buf: VecDeque<u8> = VecDeque::new();
    if buffered == 3 {
        buf.push_back(1);
        buf.push_back(2);
        buf.push_back(3);
    }
    let mut rd: FlacByteReader<PosReader, crate::byteorder::LittleEndian> = FlacByteReader {
        decoder: d,
        buf,
        endianness: std::marker::PhantomData,
        frames_start: Some(42),
    };
    const SENTINEL: u64 = u64::MAX;
    rd.decoder.current_sample = SENTINEL; // the stub overwrites it with its request
    let position = cur * bpf - buffered as u64;
    let which: u8 = kani::any();
    let off: i64 = kani::any();
    let p: u64 = kani::any();
    // restore the real current sample for the Current arithmetic
    rd.decoder.current_sample = cur;
    let (req, target): (SeekFrom, Option<u128>) = match which % 3 {
        0 => (SeekFrom::Start(p), Some(u128::from(p))),
        1 => {
            let t = i128::from(position) + i128::from(off);
            (SeekFrom::Current(off), if t >= 0 { Some(t as u128) } else { None })
        }
        _ => {
            let t = i128::from(total) * i128::from(bpf) + i128::from(off);
            (
                SeekFrom::End(off),
                if total != 0 && off <= 0 && t >= 0 { Some(t as u128) } else { None },
            )
        }
    };
    let r = rd.seek(req);
    if which % 3 == 1 && off == 0 {
        assert!(matches!(r, Ok(v) if v == position));
        assert!(rd.decoder.current_sample == cur);
    } else {
        // the stub always fails, so the call never reports success
        assert!(r.is_err());
        match target {
            Some(t) if t <= u128::from(u64::MAX) => {
                // floor(t / bpf), stated without a second divider circuit
                let q = u128::from(rd.decoder.current_sample);
                assert!(q * u128::from(bpf) <= t && t < (q + 1) * u128::from(bpf));
            }
            _ => assert!(rd.decoder.current_sample == cur), // rejected before asking the decoder
        }
    }
    kani::cover!(which % 3 == 2 && target.is_some());
    kani::cover!(which % 3 == 1 && off < 0 && target.is_some());
    std::mem::forget(r);
    std::mem::forget(rd);
}

// ===========================================================================
// Model stream for the reader front-ends (C06 slice iii, C07).
//
// `Decoder::read_frame` is replaced (kani::stub) by a model decoder over a
// model source: the stream holds MT channel-independent samples in frames of
// MB samples (the last one shorter), every frame occupies MFL bytes from byte
// MFS on, and the value of each sample *is* its absolute position
// (sample index * channels + channel), so that "the reader delivered position
// p" is observable.  Decoder::seek, every front-end read/fill_buf/consume/seek
// and the seek-table lookup remain real code.
// ===========================================================================

const MT: u64 = 4; // total samples per channel (a multiple of MB: every model frame has the same, concrete, length - a symbolic Vec::resize length exhausts memory)
const MB: u64 = 2; // block size
const MFL: u64 = 10; // bytes per frame (constant in the model)
const MFS: u64 = 42; // offset of the first frame

pub struct ModelSrc {
    /// index of the frame the source is positioned at
    pub frame: u64,
    pub seeks: u32,
}

impl std::io::Read for ModelSrc {
    /// side channel for the stub: an 8-byte read reports the frame index,
    /// a 1-byte read advances to the next frame
    fn read(&mut self, buf: &mut [u8]) -> std::io::Result<usize> {
        if buf.len() == 8 {
            buf.copy_from_slice(&self.frame.to_le_bytes());
            Ok(8)
        } else {
            self.frame += 1;
            Ok(1)
        }
    }
}

impl std::io::Seek for ModelSrc {
    fn seek(&mut self, to: std::io::SeekFrom) -> std::io::Result<u64> {
        self.seeks += 1;
        match to {
            std::io::SeekFrom::Start(p) => {
                kani::assert(
                    p >= MFS && (p - MFS) % MFL == 0 && (p - MFS) / MFL <= (MT + MB - 1) / MB,
                    "the decoder repositioned the source to something that is not a frame boundary",
                );
                self.frame = (p - MFS) / MFL;
                Ok(p)
            }
            _ => {
                kani::assert(false, "only absolute seeks are expected");
                Ok(0)
            }
        }
    }
}

fn model_read_frame<R: std::io::Read>(d: &mut Decoder<R>) -> Result<Option<&Frame>, Error> {
    use std::io::Read;
    let mut b = [0u8; 8];
    let _ = d.reader.read(&mut b);
    let k = u64::from_le_bytes(b);
    kani::assert(
        d.current_sample == k * MB || (k * MB >= MT && d.current_sample == MT),
        "decoder sample position and source byte position diverged",
    );
    if k * MB >= MT {
        return Ok(None);
    }
    let n = MB;
    let channels = usize::from(d.blocks.streaminfo().channels.get());
    let bps: u32 = d.blocks.streaminfo().bits_per_sample.into();
    let s = d.buf.resize(bps, channels, n as usize);
    let mut c = 0;
    while c < channels {
        let mut i = 0;
        while i < n as usize {
            s[c * n as usize + i] = ((k * MB + i as u64) * channels as u64 + c as u64) as i32;
            i += 1;
        }
        c += 1;
    }
    let mut one = [0u8; 1];
    let _ = d.reader.read(&mut one);
    d.current_sample += n;
    Ok(Some(&d.buf))
}

fn model_decoder(channels: u8, bps: u32, table: Option<Vec<SeekPoint>>) -> Decoder<ModelSrc> {
    let mut blocks = BlockList::new(model_streaminfo(channels, bps, MT));
    if let Some(points) = table {
        blocks.insert(SeekTable {
            points: points.try_into().unwrap(),
        });
    }
    Decoder::new(ModelSrc { frame: 0, seeks: 0 }, blocks)
}

fn frame_point(k: u64) -> SeekPoint {
    SeekPoint::Defined {
        sample_offset: k * MB,
        byte_offset: k * MFL,
        frame_samples: MB as u16,
    }
}

macro_rules! c06_channel_seek {
    ($name:ident, $table:expr, $history:expr) => {
        #[kani::proof]
        #[kani::unwind(8)]
        #[kani::stub(Decoder::read_frame, model_read_frame)]
        fn $name() {
            let mut rd = FlacChannelReader {
                decoder: model_decoder(1, 16, $table),
                consumed: 0,
                frames_start: Some(MFS),
            };
            // history: nothing, or one fill with a partial consume
            if $history {
                let n = rd.fill_buf().map(|b| b[0].len()).unwrap_or(0);
                let k: usize = kani::any();
                kani::assume(k <= n);
                rd.consume(k);
            }
            let target: u64 = kani::any();
            kani::assume(target <= MT + 1);
            let r = rd.seek(target);
            if target <= MT {
                assert!(r.is_ok());
                let b = rd.fill_buf();
                assert!(b.is_ok());
                let b = b.unwrap();
                if target < MT {
                    // the next sample delivered is the requested one
                    assert!(b[0].len() >= 1 && b[0][0] == target as i32);
                } else {
                    assert!(b[0].is_empty());
                }
                std::mem::forget(b);
            } else {
                assert!(matches!(r, Err(Error::InvalidSeek)));
                // nothing stale afterwards
                let b = rd.fill_buf();
                assert!(matches!(&b, Ok(v) if v[0].is_empty()) || b.is_err());
                std::mem::forget(b);
            }
            std::mem::forget(r);
            std::mem::forget(rd);
        }
    };
}

// @harness prop=C06 tier=quick expect=pass timeout=1500 replay=driver
// @units decode::FlacChannelReader::seek decode::FlacChannelReader::fill_buf decode::FlacChannelReader::consume decode::Decoder::seek
// @stubs decode::Decoder::read_frame(model stream)
// @bound mono model stream of 4 samples in 2 frames of 2; no seek table; fresh reader; target 0..=5 symbolic (frame boundaries, mid-frame, end, end+1)
// @oracle Ok => the next fill_buf starts exactly at the target (empty at the end of the stream); beyond the end => Err(InvalidSeek) and no stale data afterwards
c06_channel_seek!(c06_channel_reader_seek_no_table, None, false);

// (with a seek table the landing frame becomes a value read from the
// heap-allocated table and the model frame index symbolic: out of memory at
// > 40 GB - the table lookup itself is decided by c06_decoder_seek_table3)
// @harness prop=C06 tier=thorough expect=pass timeout=2400 replay=driver
// @units decode::FlacChannelReader::seek decode::FlacChannelReader::fill_buf decode::FlacChannelReader::consume
// @stubs decode::Decoder::read_frame(model stream)
// @bound no seek table; history: one fill_buf + consume(k), k symbolic 0..=2, before the seek (the frame decoded before the seek must not be handed out afterwards)
c06_channel_seek!(c06_channel_reader_seek_after_read, None, true);

// ===========================================================================
// C07: exactly-once, in-order delivery over the model stream
// ===========================================================================

macro_rules! c07_channel_sequence {
    ($name:ident, $channels:expr, $steps:expr) => {
        #[kani::proof]
        #[kani::unwind(8)]
        #[kani::stub(Decoder::read_frame, model_read_frame)]
        fn $name() {
            let mut rd = FlacChannelReader {
                decoder: model_decoder($channels, 16, None),
                consumed: 0,
                frames_start: None,
            };
            // position (channel-independent sample) of the next undelivered sample
            let mut next: u64 = 0;
            let mut step = 0;
            while step < $steps {
                let k: usize = kani::any();
                {
                    let b = rd.fill_buf();
                    assert!(b.is_ok());
                    let b = b.unwrap();
                    assert!(b.len() == $channels);
                    let n = b[0].len();
                    if n == 0 {
                        // end of stream is only signalled at the end, and then for good
                        assert!(next == MT);
                    }
                    let mut c = 0;
                    while c < $channels {
                        assert!(b[c].len() == n);
                        let mut i = 0;
                        while i < n {
                            assert!(b[c][i] as u64 == (next + i as u64) * $channels + c as u64);
                            i += 1;
                        }
                        c += 1;
                    }
                    kani::assume(k <= n);
                    std::mem::forget(b);
                }
                rd.consume(k);
                next += k as u64;
                step += 1;
            }
            kani::cover!(next == MT);
            std::mem::forget(rd);
        }
    };
}

// @harness prop=C07 tier=quick expect=pass timeout=1500 replay=driver
// @units decode::FlacChannelReader::fill_buf decode::FlacChannelReader::consume
// @stubs decode::Decoder::read_frame(model stream)
// @bound mono model stream (4 samples in 2 frames); 4 rounds of fill_buf + consume(k) with symbolic k <= available (covers partial consumes, refill exactly when empty, and polling after the end)
// @oracle every fill_buf starts at the first undelivered position and carries consecutive positions (no gap, no repeat); an empty buffer only once everything was delivered, and again on every later call
c07_channel_sequence!(c07_channel_reader_sequence_mono, 1, 4);

// @harness prop=C07 tier=thorough expect=pass timeout=2400 replay=driver
// @units decode::FlacChannelReader::fill_buf decode::FlacChannelReader::consume
// @stubs decode::Decoder::read_frame(model stream)
// @bound stereo model stream; 3 rounds; each channel slice carries its own de-interleaved positions
c07_channel_sequence!(c07_channel_reader_sequence_stereo, 2, 3);

// ===========================================================================
// C05/C04: end-of-stream accounting of Decoder::read_frame - one inductive step
// from an arbitrary state satisfying the invariant current_sample <= total
// ===========================================================================

/// a source of arbitrary bytes (never ends); a ghost log keeps the first
/// four bytes handed out so that a harness can recompute checksums
pub struct AnyBytes {
    pub log: [u8; 4],
    pub n: usize,
}

impl AnyBytes {
    pub fn new() -> Self {
        Self { log: [0; 4], n: 0 }
    }
}

impl std::io::Read for AnyBytes {
    fn read(&mut self, buf: &mut [u8]) -> std::io::Result<usize> {
        if buf.is_empty() {
            return Ok(0);
        }
        let b: u8 = kani::any();
        buf[0] = b;
        if self.n < 4 {
            self.log[self.n] = b;
        }
        self.n += 1;
        Ok(1)
    }
}

/// stand-in for FrameHeader::read: any header that passed the (separately
/// checked) field tables and STREAMINFO consistency tests, or an error
fn stub_header_read<R: std::io::Read>(_reader: &mut R, streaminfo: &Streaminfo) -> Result<FrameHeader, Error> {
    if kani::any() {
        return Err(Error::Crc8Mismatch);
    }
    let b: u16 = kani::any();
    kani::assume(b >= 1 && b <= streaminfo.maximum_block_size);
    Ok(FrameHeader {
        blocking_strategy: false,
        block_size: BlockSize::Uncommon16(b),
        sample_rate: SampleRate::Hz44100,
        channel_assignment: ChannelAssignment::Independent(Independent::Mono),
        bits_per_sample: BitsPerSample::Bps16,
        frame_number: FrameNumber(0),
    })
}

/// stand-in for read_subframes: consumes two arbitrary bytes (so that the
/// CRC-16 register ends up arbitrary) and succeeds or fails
fn stub_read_subframes<R: BitRead>(mut reader: R, _header: &FrameHeader, _buf: &mut Frame) -> Result<(), Error> {
    let _ = reader.read::<8, u8>();
    let _ = reader.read::<8, u8>();
    if kani::any() {
        Err(Error::InvalidPartitionOrder)
    } else {
        Ok(())
    }
}

// @harness prop=C05,C04 tier=quick expect=pass timeout=900 replay=driver
// @units decode::Decoder::read_frame (header check, short-block rule, remaining-sample accounting, CRC-16 gate, sample counter)
// @stubs stream::FrameHeader::read decode::read_subframes
// @bound one call from an arbitrary decoder state with a known total (1..2^36-1) and current_sample <= total; header block size 1..=65535 arbitrary; subframe parsing succeeds or fails; CRC-16 register arbitrary
// @assume state invariant current_sample <= total (re-established by this very step: that is the induction)
// @oracle no panic; remaining 0 => Ok(None) without touching the source; Ok(Some) => the CRC-16 (recomputed independently over the bytes consumed) is zero, block <= remaining, (block == remaining or block > 14), counter advanced by exactly the block size and still <= total; Err => counter unchanged
#[kani::proof]
#[kani::unwind(10)]
#[kani::stub(FrameHeader::read, stub_header_read)]
#[kani::stub(read_subframes, stub_read_subframes)]
fn c05_read_frame_accounting_known_total() {
    let total: u64 = kani::any();
    kani::assume(total >= 1 && total < (1 << 36));
    let cur: u64 = kani::any();
    kani::assume(cur <= total);
    let mut si = model_streaminfo(1, 16, total);
    si.maximum_block_size = kani::any();
    let mut d = Decoder::new(AnyBytes::new(), BlockList::new(si));
    d.current_sample = cur;
    let r = d.read_frame().map(|f| f.is_some());
    match r {
        Ok(true) => {
            let adv = d.current_sample - cur;
            assert!(d.current_sample > cur && d.current_sample <= total);
            assert!(adv <= 65535);
            assert!(adv == total - cur || adv > 14);
            // the CRC-16 gate: the register over every byte consumed for the
            // frame (here: the two bytes the subframe stand-in read) is zero
            assert!(d.reader.n == 2);
            assert!(ref_crc_bits(0x8005, 16, &d.reader.log, 2) == 0);
        }
        Ok(false) => assert!(cur == total && d.current_sample == cur),
        Err(_) => assert!(d.current_sample == cur),
    }
    kani::cover!(matches!(r, Ok(true)) && d.current_sample == total);
    kani::cover!(matches!(r, Err(Error::ShortBlock)));
    kani::cover!(matches!(r, Err(Error::Crc16Mismatch)));
    std::mem::forget(r);
    std::mem::forget(d);
}

// ===========================================================================
// C06 slice (iii) for the sample and byte readers: buffer invalidation
// ===========================================================================

macro_rules! c06_stale_sample {
    ($name:ident, $table:expr, $target:expr) => {
        #[kani::proof]
        #[kani::unwind(6)]
        #[kani::stub(Decoder::read_frame, model_read_frame)]
        fn $name() {
            let mut buf: VecDeque<i32> = VecDeque::new();
            buf.push_back(kani::any());
            buf.push_back(kani::any());
            buf.push_back(kani::any());
            let mut d = model_decoder(1, 16, $table);
            d.current_sample = MB; // one frame was decoded before the seek
            d.reader.frame = 1;
            let mut rd = FlacSampleReader {
                decoder: d,
                buf,
                frames_start: Some(MFS),
            };
            let r = rd.seek($target);
            assert!(r.is_ok());
            assert!(rd.buf.is_empty());
            assert!(rd.decoder.current_sample == $target && rd.decoder.reader.frame == $target / MB);
            std::mem::forget(r);
            std::mem::forget(rd);
        }
    };
}

macro_rules! c06_stale_bytes {
    ($name:ident, $table:expr, $target:expr) => {
        #[kani::proof]
        #[kani::unwind(6)]
        #[kani::stub(Decoder::read_frame, model_read_frame)]
        fn $name() {
            use std::io::{Seek, SeekFrom};
            let mut buf: VecDeque<u8> = VecDeque::new();
            buf.push_back(kani::any());
            buf.push_back(kani::any());
            buf.push_back(kani::any());
            let mut d = model_decoder(1, 16, $table);
            d.current_sample = MB;
            d.reader.frame = 1;
            let mut rd: FlacByteReader<ModelSrc, crate::byteorder::LittleEndian> = FlacByteReader {
                decoder: d,
                buf,
                endianness: std::marker::PhantomData,
                frames_start: Some(MFS),
            };
            let r = rd.seek(SeekFrom::Start($target * 2));
            assert!(matches!(r, Ok(p) if p == $target * 2));
            assert!(rd.buf.is_empty());
            assert!(rd.decoder.current_sample == $target && rd.decoder.reader.frame == $target / MB);
            std::mem::forget(r);
            std::mem::forget(rd);
        }
    };
}

// @harness prop=C06 tier=quick expect=pass timeout=900 replay=driver
// @units decode::FlacSampleReader::seek decode::Decoder::seek
// @stubs decode::Decoder::read_frame(model stream)
// @bound mono model stream, no seek table; reader holding 3 stale samples (arbitrary values) decoded before the seek; target 0 (a landing point, so no frame has to be decoded to observe the buffer)
// @oracle after Ok the stale samples are gone (buffer empty: the next read decodes the frame at the landing point) and the decoder is positioned at the target
c06_stale_sample!(c06_sample_reader_seek_drops_stale_no_table, None, 0);

// @harness prop=C06 tier=quick expect=pass timeout=900 replay=driver
// @units decode::FlacByteReader::seek decode::Decoder::seek
// @stubs decode::Decoder::read_frame(model stream)
// @bound byte reader (16-bit mono: 2 bytes per PCM frame) holding 3 stale bytes; no seek table; SeekFrom::Start(0)
// @oracle Ok(0); stale bytes gone; decoder positioned at the target
c06_stale_bytes!(c06_byte_reader_seek_drops_stale_no_table, None, 0);

// (landing on a seek point other than the stream start makes the landing
// position a value read from the heap-allocated table; the skip loop with its
// VecDeque/Frame::iter refill is then explored symbolically and does not finish
// in 900 s - outside the claim)

// ===========================================================================
// C14 / C05: a stream that ends (cleanly or inside a frame)
// ===========================================================================

/// header reader that may also hit the end of the data
fn stub_header_read_eof<R: std::io::Read>(_reader: &mut R, streaminfo: &Streaminfo) -> Result<FrameHeader, Error> {
    let sel: u8 = kani::any();
    if sel == 0 {
        return Err(Error::Io(std::io::Error::from(std::io::ErrorKind::UnexpectedEof)));
    }
    if sel == 1 {
        return Err(Error::InvalidSyncCode);
    }
    let b: u16 = kani::any();
    kani::assume(b >= 1 && b <= streaminfo.maximum_block_size);
    Ok(FrameHeader {
        blocking_strategy: false,
        block_size: BlockSize::Uncommon16(b),
        sample_rate: SampleRate::Hz44100,
        channel_assignment: ChannelAssignment::Independent(Independent::Mono),
        bits_per_sample: BitsPerSample::Bps16,
        frame_number: FrameNumber(0),
    })
}

/// subframe reader that may hit the end of the data inside the frame
fn stub_read_subframes_eof<R: BitRead>(mut reader: R, _header: &FrameHeader, _buf: &mut Frame) -> Result<(), Error> {
    let _ = reader.read::<8, u8>();
    let _ = reader.read::<8, u8>();
    let sel: u8 = kani::any();
    match sel {
        0 => Err(Error::Io(std::io::Error::from(std::io::ErrorKind::UnexpectedEof))),
        1 => Err(Error::InvalidPartitionOrder),
        _ => Ok(()),
    }
}

// @harness prop=C14,C05 tier=quick expect=pass timeout=900 replay=driver
// @units decode::Decoder::read_frame (end-of-data handling)
// @stubs stream::FrameHeader::read decode::read_subframes
// @bound one call from an arbitrary state; total declared (1..2^36-1, current <= total) or undeclared; the data may end before the header (clean cut at a frame boundary), inside the header/subframes (cut inside a frame) or not at all; CRC-16 register arbitrary
// @oracle undeclared total + data ending before a header => Ok(None) (end of stream), never samples; declared total with samples still due => that same cut is an error; a cut inside a frame is always an error; a frame is only delivered with a valid CRC-16 and advances the counter by its block size; errors leave the counter alone
#[kani::proof]
#[kani::unwind(4)]
#[kani::stub(FrameHeader::read, stub_header_read_eof)]
#[kani::stub(read_subframes, stub_read_subframes_eof)]
fn c14_read_frame_at_end_of_data() {
    let declared: bool = kani::any();
    let total: u64 = kani::any();
    kani::assume(total >= 1 && total < (1 << 36));
    let cur: u64 = kani::any();
    kani::assume(cur < (1 << 36));
    if declared {
        kani::assume(cur <= total);
    }
    let mut si = model_streaminfo(1, 16, if declared { total } else { 0 });
    si.maximum_block_size = kani::any();
    let mut d = Decoder::new(AnyBytes::new(), BlockList::new(si));
    d.current_sample = cur;
    let r = d.read_frame().map(|f| f.is_some());
    match &r {
        Ok(true) => assert!(d.current_sample > cur && d.current_sample - cur <= 65535),
        Ok(false) => {
            assert!(d.current_sample == cur);
            if declared {
                assert!(cur == total);
            }
        }
        Err(e) => {
            assert!(d.current_sample == cur);
            if declared {
                assert!(cur < total);
            }
            let _ = e;
        }
    }
    kani::cover!(!declared && matches!(r, Ok(false)));
    kani::cover!(declared && matches!(&r, Err(Error::Io(_))));
    kani::cover!(!declared && matches!(&r, Err(Error::Io(_))));
    std::mem::forget(r);
    std::mem::forget(d);
}

// vacuity twins: the end of each harness family is reachable
// @harness prop=C05,C14 tier=quick expect=fail timeout=600
// @units decode::Decoder::read_frame
// @bound reachability witness for the read_frame accounting harnesses: a frame can be delivered
#[kani::proof]
#[kani::unwind(4)]
#[kani::stub(FrameHeader::read, stub_header_read)]
#[kani::stub(read_subframes, stub_read_subframes)]
fn c05_read_frame_accounting_twin() {
    let mut d = Decoder::new(AnyBytes::new(), BlockList::new(model_streaminfo(1, 16, 100)));
    d.current_sample = 0;
    let r = d.read_frame().map(|f| f.is_some());
    if matches!(r, Ok(true)) {
        assert!(false);
    }
    std::mem::forget(r);
    std::mem::forget(d);
}

// @harness prop=C06 tier=quick expect=fail timeout=600
// @units decode::Decoder::seek
// @bound reachability witness for c06_decoder_seek_table3: a non-trivial table passes the constructor and the seek succeeds
#[kani::proof]
#[kani::unwind(6)]
fn c06_decoder_seek_twin() {
    let pts = [any_seekpoint(), any_seekpoint(), any_seekpoint()];
    let table = crate::metadata::contiguous::Contiguous::<{ SeekTable::MAX_POINTS }, SeekPoint>::try_from(
        vec![pts[0].clone(), pts[1].clone(), pts[2].clone()],
    );
    kani::assume(table.is_ok());
    let mut blocks = BlockList::new(model_streaminfo(1, 16, 0));
    blocks.insert(SeekTable { points: table.unwrap() });
    let mut d = Decoder::new(PosReader { pos: 0, seeks: 0 }, blocks);
    let r = d.seek(1, kani::any());
    if matches!(r, Ok(s) if s > 0) {
        assert!(false);
    }
    std::mem::forget(r);
    std::mem::forget(d);
}

// @harness prop=C03 tier=quick expect=pass timeout=600
// @units decode::read_subframes(SideRight)
// @bound block 2, SIDE_RIGHT, 20 bps (header code 101: the side channel is 21 bits wide)
c03_restore!(c03_restore_sideright_b20, ChannelAssignment::SideRight, BitsPerSample::Bps20, 20, 1);

// @harness prop=C03 tier=quick expect=pass timeout=600
// @units decode::read_subframes(LeftSide)
// @bound block 2, LEFT_SIDE, 12 bps (header code 010)
c03_restore!(c03_restore_leftside_b12, ChannelAssignment::LeftSide, BitsPerSample::Bps12, 12, 0);

// @harness prop=C03,C04 tier=quick expect=pass timeout=600
// @units decode::read_subframes(Independent) audio::Frame::resized_channels decode::read_subframe
// @bound block 2, 3 independent channels (VERBATIM subframes), 24 bps, all 6 sample fields arbitrary
// @oracle every channel comes back in order with its own samples (sign-extended 24-bit fields); 6 samples in the frame; byte-aligned + 16 CRC bits consumed after the last subframe
#[kani::proof]
#[kani::unwind(12)]
fn c03_independent_3ch_b24() {
    let s: [u64; 6] = kani::any();
    let vals: [u64; 16] = [0, 1, 0, s[0], s[1], 0, 1, 0, s[2], s[3], 0, 1, 0, s[4], s[5], kani::any()];
    let mut r = ModelBits::new(Script::new(&vals), 63);
    let mut buf = Frame::default();
    let h = hdr(2, ChannelAssignment::Independent(Independent::try_from(3usize).unwrap()), BitsPerSample::Bps24);
    let res = read_subframes(&mut r, &h, &mut buf);
    assert!(res.is_ok());
    assert!(buf.pcm_frames() == 2);
    let sx = |raw: u64| -> i32 {
        let v = (raw & 0xFF_FFFF) as i32;
        if v & 0x80_0000 != 0 { v - (1 << 24) } else { v }
    };
    {
        let mut it = buf.channels();
        let mut c = 0;
        while c < 3 {
            let ch = it.next().unwrap();
            assert!(ch.len() == 2 && ch[0] == sx(s[2 * c]) && ch[1] == sx(s[2 * c + 1]));
            c += 1;
        }
        assert!(it.next().is_none());
    }
    // 3 x (8 + 2 x 24) = 168 bits = 21 bytes exactly, then the 16-bit CRC
    assert!(r.pos == 168 + 16);
    std::mem::forget(res);
    std::mem::forget(buf);
}
