// Harnesses over src/decode.rs (child module of `decode`: private items are reachable)
use super::*;
use crate::stream::{
    BitsPerSample, BlockSize, ChannelAssignment, FrameHeader, FrameNumber, Independent, SampleRate,
    SubframeHeaderType,
};
use crate::verif_env::*;
use crate::verif_env::refmodel;

impl DecodeHooks for Hooks {
    fn read_residuals_i32<R: BitRead>(r: &mut R, order: usize, res: &mut [i32]) -> Result<(), Error> {
        read_residuals(r, order, res)
    }
    fn read_subframe_i32<R: BitRead>(r: &mut R, bps: u32, ch: &mut [i32]) -> Result<(), Error> {
        read_subframe::<32, R, i32>(r, SignedBitCount::<32>::try_from(bps).unwrap(), ch)
    }
    fn read_subframe_i64<R: BitRead>(r: &mut R, bps: u32, ch: &mut [i64]) -> Result<(), Error> {
        read_subframe::<33, R, i64>(r, SignedBitCount::<33>::try_from(bps).unwrap(), ch)
    }
    fn predict_i32(coefficients: &[i64], shift: u32, ch: &mut [i32]) {
        predict(coefficients, shift, ch)
    }
    fn read_subframes<R: BitRead>(
        r: R,
        header: &FrameHeader,
        buf: &mut Frame,
    ) -> Result<(), Error> {
        read_subframes(r, header, buf)
    }
}

fn sbc32(bits: u32) -> SignedBitCount<32> {
    SignedBitCount::<32>::try_from(bits).unwrap()
}

fn any_bps32() -> SignedBitCount<32> {
    let b: u32 = kani::any();
    kani::assume(b >= 1 && b <= 32);
    sbc32(b)
}

fn hdr(block: u16, ca: ChannelAssignment, bps: BitsPerSample) -> FrameHeader {
    FrameHeader {
        blocking_strategy: false,
        block_size: BlockSize::Uncommon8(block),
        sample_rate: SampleRate::Hz44100,
        channel_assignment: ca,
        bits_per_sample: bps,
        frame_number: FrameNumber(0),
    }
}

// ===========================================================================
// C04: no panic / no unbounded loop on arbitrary input (dev profile: overflow
// checks and debug assertions on).  Oracle of every harness in this block: no
// failed check of any kind.
// ===========================================================================


// ---------------------------------------------------------------------------
// Subframe decoding against the RFC reference model (C03) and for panic
// freedom on arbitrary field values (C04).
//
// Shape of a harness = the *structural* fields of the stream, pinned to
// concrete values in the script (subframe type code, wasted-bits flag, residual
// coding method, partition order) plus bits-per-sample and block length.
// Everything else - samples, warm-up, precision, shift, coefficients, Rice
// parameters, escape widths, unary quotients, residual bits, the wasted-bits
// count - is symbolic.  Reads never fail in these harnesses (see DESIGN 2.2:
// an Err(io::Error) on the path defeats constant folding); truncation is
// covered by the c04_read_residuals_any* harnesses.
// ---------------------------------------------------------------------------

macro_rules! sub_diff {
    ($name:ident, $int:ty, $max:expr, $bps:expr, $n:expr, $slots:expr, $umask:expr, [$( ($idx:expr, $val:expr) ),*]) => {
        #[kani::proof]
        #[kani::unwind(10)]
        fn $name() {
            let mut vals: [u64; $slots] = kani::any();
            $( vals[$idx] = $val; )*
            let mut r1 = ModelBits::new(Script::new(&vals), $umask);
            let mut ch = [0 as $int; $n];
            let res = read_subframe::<$max, _, $int>(
                &mut r1,
                SignedBitCount::<$max>::new::<$bps>(),
                &mut ch,
            );
            let mut r2 = ModelBits::new(Script::new(&vals), $umask);
            let mut exp = [0i128; $n];
            let verdict = refmodel::subframe(&mut r2, $bps, $n, &mut exp);
            if verdict == refmodel::Verdict::Valid {
                // C03: a valid subframe decodes to exactly the RFC's samples
                assert!(res.is_ok());
                let mut i = 0;
                while i < $n {
                    assert!(i128::from(ch[i]) == exp[i]);
                    i += 1;
                }
                assert!(r1.pos == r2.pos);
            }
            kani::cover!(verdict == refmodel::Verdict::Valid);
            std::mem::forget(res);
        }
    };
}

// layout of the pinned slots: [0]=padding bit, [1]=6-bit type code, [2]=wasted flag,
// FIXED order k (no wasted bits): [3+k]=coding method, [4+k]=partition order
// LPC order k (no wasted bits): [3+k]=precision-1, [4+k]=shift, [5+k..5+2k]=coefficients, [5+2k]=method, [6+2k]=partition order

// @harness prop=C03,C04 tier=quick expect=pass timeout=300
// @units decode::read_subframe<32,i32> stream::SubframeHeader::from_reader
// @bound CONSTANT subframe, 16 bps, block 3, wasted-bits flag set with symbolic unary count <= 63 (covers wasted >= bps), sample value symbolic
// @oracle reference model verdict Valid => Ok, identical samples, identical bit position; never a failed check
sub_diff!(c03_sub_const_b16_w, i32, 32, 16, 3, 6, 63, [(0, 0), (1, 0), (2, 1)]);

// @harness prop=C03,C04 tier=thorough expect=pass timeout=300
// @units decode::read_subframe<32,i32>
// @bound CONSTANT subframe, 32 bps, block 2, no wasted bits
sub_diff!(c03_sub_const_b32, i32, 32, 32, 2, 5, 63, [(0, 0), (1, 0), (2, 0)]);

// @harness prop=C03,C04 tier=thorough expect=pass timeout=300
// @units decode::read_subframe<33,i64>
// @bound CONSTANT subframe on the 33-bit side-channel path, block 2, wasted-bits flag set (count symbolic <= 63)
sub_diff!(c03_sub_const_wide_w, i64, 33, 33, 2, 6, 63, [(0, 0), (1, 0), (2, 1)]);

// @harness prop=C03,C04 tier=quick expect=pass timeout=300
// @units decode::read_subframe<32,i32>
// @bound VERBATIM subframe, 16 bps, block 3, wasted-bits flag set (count symbolic <= 63), samples symbolic
sub_diff!(c03_sub_verbatim_b16_w, i32, 32, 16, 3, 8, 63, [(0, 0), (1, 1), (2, 1)]);

// @harness prop=C03,C04 tier=thorough expect=pass timeout=300
// @units decode::read_subframe<32,i32>
// @bound VERBATIM subframe, 4 bps (STREAMINFO-referenced depth), block 4, no wasted bits
sub_diff!(c03_sub_verbatim_b4, i32, 32, 4, 4, 8, 63, [(0, 0), (1, 1), (2, 0)]);

// @harness prop=C03,C04 tier=quick expect=pass timeout=300
// @units decode::read_subframe<33,i64>
// @bound VERBATIM subframe on the 33-bit side-channel path, block 2
sub_diff!(c03_sub_verbatim_wide, i64, 33, 33, 2, 6, 63, [(0, 0), (1, 1), (2, 0)]);

// @harness prop=C03,C04 tier=thorough expect=pass timeout=600
// @units decode::read_subframe<32,i32> decode::read_fixed_subframe decode::read_residuals decode::predict
// @bound FIXED order 0, 16 bps, block 2, Rice method 0, partition order 0; Rice parameter/escape width/quotients (<= 7)/residual bits symbolic
sub_diff!(c03_sub_fixed0_b16_n2, i32, 32, 16, 2, 12, 7, [(0, 0), (1, 8), (2, 0), (3, 0), (4, 0)]);

// @harness prop=C03,C04 tier=quick expect=pass timeout=600
// @units decode::read_subframe<32,i32> decode::read_fixed_subframe decode::read_residuals decode::predict
// @bound FIXED order 1, 16 bps, block 3, Rice method 0, partition order 0
sub_diff!(c03_sub_fixed1_b16_n3, i32, 32, 16, 3, 13, 7, [(0, 0), (1, 9), (2, 0), (4, 0), (5, 0)]);

// @harness prop=C03,C04 tier=quick expect=pass timeout=600
// @units decode::read_subframe<32,i32> decode::read_fixed_subframe decode::read_residuals decode::predict
// @bound FIXED order 2, 32 bps (full-scale warm-up), block 4, Rice2 method 1 (5-bit parameters), partition order 0
sub_diff!(c03_sub_fixed2_b32_n4, i32, 32, 32, 4, 14, 7, [(0, 0), (1, 10), (2, 0), (5, 1), (6, 0)]);

// @harness prop=C03,C04 tier=thorough expect=pass timeout=600
// @units decode::read_subframe<32,i32> decode::read_fixed_subframe decode::read_residuals decode::predict
// @bound FIXED order 3, 8 bps, block 5, method 0, partition order 0
sub_diff!(c03_sub_fixed3_b8_n5, i32, 32, 8, 5, 15, 7, [(0, 0), (1, 11), (2, 0), (6, 0), (7, 0)]);

// @harness prop=C03,C04 tier=thorough expect=pass timeout=600
// @units decode::read_subframe<32,i32> decode::read_fixed_subframe decode::read_residuals decode::predict
// @bound FIXED order 4, 24 bps, block 6, method 0, partition order 0
sub_diff!(c03_sub_fixed4_b24_n6, i32, 32, 24, 6, 16, 7, [(0, 0), (1, 12), (2, 0), (7, 0), (8, 0)]);

// @harness prop=C03,C04 tier=thorough expect=pass timeout=600
// @units decode::read_subframe<32,i32> decode::read_fixed_subframe decode::read_residuals decode::predict
// @bound FIXED order 1, 16 bps, block 4, method 1, partition order 1 (two partitions: 1 + 2 residuals)
sub_diff!(c03_sub_fixed1_b16_n4_po1, i32, 32, 16, 4, 18, 7, [(0, 0), (1, 9), (2, 0), (4, 1), (5, 1)]);

// @harness prop=C03,C04 tier=quick expect=pass timeout=600
// @units decode::read_subframe<32,i32> decode::read_lpc_subframe decode::read_residuals decode::predict
// @bound LPC order 1, 16 bps, block 3, method 0, partition order 0; precision field pinned to 3 bits (coefficient in -4..=3), shift (5-bit signed) and coefficient symbolic
sub_diff!(c03_sub_lpc1_b16_n3_p3, i32, 32, 16, 3, 16, 7, [(0, 0), (1, 32), (2, 0), (4, 2), (7, 0), (8, 0)]);

// @harness prop=C03,C04 tier=thorough expect=pass timeout=3000
// @units decode::read_subframe<32,i32> decode::read_lpc_subframe decode::read_residuals decode::predict
// @bound LPC order 1, 16 bps, block 3, method 0, partition order 0; precision (1..=15 bits, and the illegal 0b1111), shift (5-bit signed), coefficient all symbolic
sub_diff!(c03_sub_lpc1_b16_n3, i32, 32, 16, 3, 16, 7, [(0, 0), (1, 32), (2, 0), (7, 0), (8, 0)]);

// @harness prop=C03,C04 tier=quick expect=pass timeout=900
// @units decode::read_subframe<32,i32> decode::read_lpc_subframe decode::read_residuals decode::predict
// @bound LPC order 2, 32 bps (full-scale warm-up), block 4, method 1, partition order 0; precision pinned to 4 bits (coefficients -8..=7), shift and both coefficients symbolic
sub_diff!(c03_sub_lpc2_b32_n4_p4, i32, 32, 32, 4, 18, 7, [(0, 0), (1, 33), (2, 0), (5, 3), (9, 1), (10, 0)]);

// @harness prop=C03,C04 tier=thorough expect=pass timeout=3000
// @units decode::read_subframe<32,i32> decode::read_lpc_subframe decode::read_residuals decode::predict
// @bound LPC order 2, 32 bps, block 4, method 1, partition order 0; precision, shift, both coefficients symbolic (up to 15 bits)
sub_diff!(c03_sub_lpc2_b32_n4, i32, 32, 32, 4, 18, 7, [(0, 0), (1, 33), (2, 0), (9, 1), (10, 0)]);

// @harness prop=C03,C04 tier=quick expect=pass timeout=900
// @units decode::read_subframe<33,i64> decode::read_lpc_subframe decode::read_residuals(i64) decode::predict<i64>
// @bound LPC order 1 on the 33-bit side-channel path, block 3, method 0, partition order 0; precision pinned to 3 bits
sub_diff!(c03_sub_lpc1_wide_n3_p3, i64, 33, 33, 3, 16, 7, [(0, 0), (1, 32), (2, 0), (4, 2), (7, 0), (8, 0)]);

// @harness prop=C03,C04 tier=thorough expect=pass timeout=3000
// @units decode::read_subframe<33,i64> decode::read_lpc_subframe decode::read_residuals(i64) decode::predict<i64>
// @bound LPC order 1 on the 33-bit side-channel path, block 3, method 0, partition order 0; precision symbolic
sub_diff!(c03_sub_lpc1_wide_n3, i64, 33, 33, 3, 16, 7, [(0, 0), (1, 32), (2, 0), (7, 0), (8, 0)]);

// @harness prop=C03,C04 tier=thorough expect=pass timeout=1800
// @units decode::read_subframe<32,i32> decode::read_fixed_subframe decode::read_residuals decode::predict
// @bound FIXED order 2, 16 bps, block 8, method 0, partition order 2 (partitions of 0.. wait 2: 8>>2 = 2 = order: the empty-first-partition corner)
sub_diff!(c03_sub_fixed2_b16_n8_po2, i32, 32, 16, 8, 28, 7, [(0, 0), (1, 10), (2, 0), (5, 0), (6, 2)]);

// @harness prop=C03,C04 tier=thorough expect=pass timeout=1800
// @units decode::read_subframe<32,i32> decode::read_fixed_subframe decode::read_residuals decode::predict
// @bound FIXED order 1, 16 bps, block 8, method 0, partition order 2 (partitions of 1,2,2,2 residuals)
sub_diff!(c03_sub_fixed1_b16_n8_po2, i32, 32, 16, 8, 28, 7, [(0, 0), (1, 9), (2, 0), (4, 0), (5, 2)]);

// @harness prop=C03,C04 tier=thorough expect=pass timeout=1800
// @units decode::read_subframe<32,i32> decode::read_lpc_subframe decode::read_residuals decode::predict
// @bound LPC order 3, 16 bps, block 5, method 0, partition order 0
sub_diff!(c03_sub_lpc3_b16_n5, i32, 32, 16, 5, 22, 7, [(0, 0), (1, 34), (2, 0), (11, 0), (12, 0)]);

// @harness prop=C03,C04 tier=thorough expect=pass timeout=1800
// @units decode::read_subframe<32,i32> decode::read_lpc_subframe decode::read_residuals decode::predict
// @bound LPC order 4, 24 bps, block 6, method 1, partition order 0
sub_diff!(c03_sub_lpc4_b24_n6, i32, 32, 24, 6, 26, 7, [(0, 0), (1, 35), (2, 0), (13, 1), (14, 0)]);

// @harness prop=C03,C04 tier=thorough expect=pass timeout=1800
// @units decode::read_subframe<32,i32> decode::read_fixed_subframe decode::read_residuals decode::predict
// @bound FIXED order 2, 12 bps, block 4, wasted-bits flag set (count symbolic <= 7 ... unary mask 7), method 0, partition order 0
sub_diff!(c03_sub_fixed2_b12_n4_w, i32, 32, 12, 4, 16, 7, [(0, 0), (1, 10), (2, 1), (6, 0), (7, 0)]);

// vacuity twin for the sub_diff family: the Valid branch is reachable
// @harness prop=C03,C04 tier=quick expect=fail timeout=600
// @units decode::read_subframe<32,i32>
// @bound reachability witness: same shape as c03_sub_fixed1_b16_n3 with a final assert(false) inside the Valid branch
#[kani::proof]
#[kani::unwind(10)]
fn c03_sub_fixed1_twin() {
    let mut vals: [u64; 13] = kani::any();
    vals[0] = 0;
    vals[1] = 9;
    vals[2] = 0;
    vals[4] = 0;
    vals[5] = 0;
    let mut r1 = ModelBits::new(Script::new(&vals), 7);
    let mut ch = [0i32; 3];
    let res = read_subframe::<32, _, i32>(&mut r1, SignedBitCount::<32>::new::<16>(), &mut ch);
    let mut r2 = ModelBits::new(Script::new(&vals), 7);
    let mut exp = [0i128; 3];
    let verdict = refmodel::subframe(&mut r2, 16, 3, &mut exp);
    if verdict == refmodel::Verdict::Valid && res.is_ok() {
        assert!(false);
    }
    std::mem::forget(res);
}

// Fully nondeterministic stream, end of data possible at every read: the only
// harness family that explores truncation inside the residual section.
// @harness prop=C04 tier=thorough expect=pass timeout=2400
// @units decode::read_residuals decode::read_residuals::read_block stream::ResidualPartitionHeader::from_reader
// @bound 2 residual slots; predictor order 0..=2; coding method, 4-bit partition order (all 16), rice/escape parameters and every residual field symbolic; unary run <= 7; end of data possible at every read
#[kani::proof]
#[kani::unwind(6)]
fn c04_read_residuals_any_n2() {
    let mut r = SymBits::arbitrary(7);
    let order: usize = kani::any();
    kani::assume(order <= 2);
    let mut res = [0i32; 2];
    let x = read_residuals(&mut r, order, &mut res);
    std::mem::forget(x);
}

// @harness prop=C04 tier=thorough expect=pass timeout=2400
// @units decode::read_residuals(i64) decode::read_residuals::read_block
// @bound wide (33-bit side channel) instantiation, 2 residual slots, predictor order 1, otherwise as c04_read_residuals_any_n2
#[kani::proof]
#[kani::unwind(6)]
fn c04_read_residuals_any_wide_n2() {
    let mut r = SymBits::arbitrary(7);
    let mut res = [0i64; 2];
    let x = read_residuals(&mut r, 1, &mut res);
    std::mem::forget(x);
}

// every partition order a 4-bit field can hold, for a tiny block: too-large
// orders must be an error, never a panic (finding F01)
// @harness prop=C04,C05 tier=quick expect=pass timeout=600
// @units decode::read_residuals decode::read_residuals::read_block
// @bound block 4 (predictor order 1, 3 residuals), coding methods 0 and 1, partition order pinned to each of 0..=15 in turn, all other fields symbolic
// @oracle partition order > 2 (block not divisible / smaller than the partition count) => Err(InvalidPartitionOrder); never a failed check
#[kani::proof]
#[kani::unwind(17)]
fn c04_residuals_every_partition_order() {
    let mut po = 0u64;
    while po < 16 {
        let mut vals: [u64; 16] = kani::any();
        vals[0] = if po % 2 == 0 { 0 } else { 1 };
        vals[1] = po;
        let mut r = ModelBits::new(Script::new(&vals), 7);
        let mut res = [0i32; 3];
        let x = read_residuals(&mut r, 1, &mut res);
        if po > 2 {
            assert!(matches!(x, Err(Error::InvalidPartitionOrder)));
        }
        std::mem::forget(x);
        po += 1;
    }
}

// illegal subframe parameters must be rejected (C05 must-reject classes)
macro_rules! sub_reject {
    ($name:ident, $bps:expr, $n:expr, $slots:expr, [$( ($idx:expr, $val:expr) ),*], $trip:expr, $pat:pat) => {
        #[kani::proof]
        #[kani::unwind(10)]
        fn $name() {
            let mut vals: [u64; $slots] = kani::any();
            $( vals[$idx] = $val; )*
            let mut src = Script::new(&vals);
            // no field may be consumed after the one that makes the input illegal
            src.trip_at = $trip;
            let mut r = ModelBits::new(src, 63);
            let mut ch = [0i32; $n];
            let res = read_subframe::<32, _, i32>(&mut r, SignedBitCount::<32>::new::<$bps>(), &mut ch);
            assert!(matches!(res, $pat));
            std::mem::forget(res);
        }
    };
}

// @harness prop=C04,C05 tier=quick expect=pass timeout=300
// @units decode::read_subframe<32,i32> stream::SubframeHeader::from_reader
// @bound reserved type code 0b000010 pinned (the whole reserved table is decided on SubframeHeaderType::from_reader in k_stream.rs)
// @oracle Err(InvalidSubframeHeaderType)
sub_reject!(c05_sub_reserved_type_2, 16, 2, 4, [(0, 0), (1, 2)], 2, Err(Error::InvalidSubframeHeaderType));

// @harness prop=C04,C05 tier=quick expect=pass timeout=300
// @units decode::read_subframe<32,i32> stream::SubframeHeader::from_reader
// @bound reserved type code 0b001101 pinned
// @oracle Err(InvalidSubframeHeaderType)
sub_reject!(c05_sub_reserved_type_13, 16, 2, 4, [(0, 0), (1, 13)], 2, Err(Error::InvalidSubframeHeaderType));

// @harness prop=C04,C05 tier=quick expect=pass timeout=300
// @units decode::read_subframe<32,i32> stream::SubframeHeader::from_reader
// @bound subframe padding bit set
// @oracle Err(InvalidSubframeHeader)
sub_reject!(c05_sub_padding_bit_set, 16, 2, 4, [(0, 1)], 1, Err(Error::InvalidSubframeHeader));

// @harness prop=C05 tier=quick expect=pass timeout=300
// @units decode::read_lpc_subframe
// @bound LPC order 1, 16 bps, block 3, precision field pinned to 0b1111
// @oracle Err(InvalidQlpPrecision)
sub_reject!(c05_sub_lpc_precision_1111, 16, 3, 12, [(0, 0), (1, 32), (2, 0), (4, 15)], 5, Err(Error::InvalidQlpPrecision));

// @harness prop=C05 tier=quick expect=pass timeout=300
// @units decode::read_lpc_subframe
// @bound LPC order 1, 16 bps, block 3, precision pinned to a legal value, 5-bit shift field pinned to 0b10000 (-16)
// @oracle Err(NegativeLpcShift)
sub_reject!(c05_sub_lpc_negative_shift_m16, 16, 3, 12, [(0, 0), (1, 32), (2, 0), (4, 5), (5, 16)], 6, Err(Error::NegativeLpcShift));

// @harness prop=C05 tier=quick expect=pass timeout=300
// @units decode::read_lpc_subframe
// @bound as above with shift field 0b11111 (-1)
// @oracle Err(NegativeLpcShift)
sub_reject!(c05_sub_lpc_negative_shift_m1, 16, 3, 12, [(0, 0), (1, 32), (2, 0), (4, 5), (5, 31)], 6, Err(Error::NegativeLpcShift));

// @harness prop=C05 tier=quick expect=pass timeout=300
// @units decode::read_residuals
// @bound FIXED order 0, block 2, residual coding method pinned to 2 and to 3
// @oracle Err(InvalidCodingMethod)
sub_reject!(c05_sub_coding_method_2, 16, 2, 8, [(0, 0), (1, 8), (2, 0), (3, 2)], 4, Err(Error::InvalidCodingMethod));

// @harness prop=C05 tier=quick expect=pass timeout=300
// @units decode::read_residuals
// @bound as above with method 3
// @oracle Err(InvalidCodingMethod)
sub_reject!(c05_sub_coding_method_3, 16, 2, 8, [(0, 0), (1, 8), (2, 0), (3, 3)], 4, Err(Error::InvalidCodingMethod));

// @harness prop=C05 tier=quick expect=pass timeout=300
// @units decode::read_fixed_subframe
// @bound FIXED order 4 in a block of 3 samples (order exceeds the block)
// @oracle Err(InvalidFixedOrder)
sub_reject!(c05_sub_fixed_order_exceeds_block, 16, 3, 8, [(0, 0), (1, 12), (2, 0)], 3, Err(Error::InvalidFixedOrder));

// @harness prop=C05 tier=quick expect=pass timeout=300
// @units decode::read_lpc_subframe
// @bound LPC order 4 in a block of 3 samples
// @oracle Err(InvalidLpcOrder)
sub_reject!(c05_sub_lpc_order_exceeds_block, 16, 3, 8, [(0, 0), (1, 35), (2, 0)], 3, Err(Error::InvalidLpcOrder));

// @harness prop=C05 tier=quick expect=pass timeout=300
// @units decode::read_residuals::read_block
// @bound FIXED order 1, block 5 (odd), partition order 1: the block is not divisible by the partition count
// @oracle Err(InvalidPartitionOrder)
sub_reject!(c05_sub_partition_not_dividing, 16, 5, 20, [(0, 0), (1, 9), (2, 0), (4, 0), (5, 1)], 6, Err(Error::InvalidPartitionOrder));

macro_rules! c04_predict_fixed {
    ($name:ident, $order:expr, $n:expr) => {
        #[kani::proof]
        #[kani::unwind(10)]
        fn $name() {
            let mut ch: [i32; $n] = kani::any();
            predict(SubframeHeaderType::FIXED_COEFFS[$order], 0, &mut ch);
        }
    };
}

// @harness prop=C04 tier=quick expect=pass timeout=300
// @units decode::predict<i32>
// @bound FIXED order 1, 3 arbitrary 32-bit values (warm-up + residuals as a malformed stream can deliver them)
c04_predict_fixed!(c04_predict_fixed_o1, 1, 3);

// @harness prop=C04 tier=quick expect=pass timeout=300
// @units decode::predict<i32>
// @bound FIXED order 2, 4 arbitrary 32-bit values
c04_predict_fixed!(c04_predict_fixed_o2, 2, 4);

// @harness prop=C04 tier=quick expect=pass timeout=300
// @units decode::predict<i32>
// @bound FIXED order 4, 5 arbitrary 32-bit values
c04_predict_fixed!(c04_predict_fixed_o4, 4, 5);

// @harness prop=C04 tier=quick expect=pass timeout=600
// @units decode::predict<i32>
// @bound LPC order 2, coefficients any 15-bit signed, shift 0..=15 (all a 5-bit non-negative field can hold), 4 arbitrary 32-bit values
#[kani::proof]
#[kani::unwind(10)]
fn c04_predict_lpc_o2() {
    let c: [i16; 2] = kani::any();
    kani::assume(c[0] >= -16384 && c[0] < 16384 && c[1] >= -16384 && c[1] < 16384);
    let coeffs = [i64::from(c[0]), i64::from(c[1])];
    let shift: u32 = kani::any();
    kani::assume(shift <= 15);
    let mut ch: [i32; 4] = kani::any();
    predict(&coeffs, shift, &mut ch);
}

// @harness prop=C04 tier=quick expect=pass timeout=600
// @units decode::predict<i64>
// @bound wide instantiation: LPC order 2, 15-bit coefficients, shift 0..=15, 4 values each within 33 bits plus a 32-bit residual range
#[kani::proof]
#[kani::unwind(10)]
fn c04_predict_wide_lpc_o2() {
    let c: [i16; 2] = kani::any();
    kani::assume(c[0] >= -16384 && c[0] < 16384 && c[1] >= -16384 && c[1] < 16384);
    let coeffs = [i64::from(c[0]), i64::from(c[1])];
    let shift: u32 = kani::any();
    kani::assume(shift <= 15);
    let mut ch: [i64; 4] = kani::any();
    for v in ch.iter() {
        kani::assume(*v >= -(1i64 << 33) && *v < (1i64 << 33));
    }
    predict(&coeffs, shift, &mut ch);
}

// Frame restoration: every subframe is VERBATIM with no wasted bits (concrete
// header fields), every sample field is symbolic, so the channels handed to the
// inter-channel restoration are arbitrary in-type values - what a malformed but
// checksum-correct frame can deliver.
fn restore_script2(a: [u64; 2], b: [u64; 2], crc: u64) -> [u64; 11] {
    [0, 1, 0, a[0], a[1], 0, 1, 0, b[0], b[1], crc]
}

macro_rules! c04_restore {
    ($name:ident, $ca:expr, $bps:expr) => {
        #[kani::proof]
        #[kani::unwind(12)]
        fn $name() {
            let vals = restore_script2(kani::any(), kani::any(), kani::any());
            let mut r = ModelBits::new(Script::new(&vals), 63);
            let mut buf = Frame::default();
            let h = hdr(2, $ca, $bps);
            let res = read_subframes(&mut r, &h, &mut buf);
            kani::cover!(res.is_ok());
            if res.is_ok() {
                assert!(buf.pcm_frames() == 2);
            }
            std::mem::forget(buf);
        }
    };
}

// @harness prop=C04 tier=thorough expect=pass timeout=600
// @units decode::read_subframes(LeftSide) decode::read_subframe audio::Frame::resized_stereo
// @bound block size 2, stereo LeftSide, 16 bits-per-sample, 4 arbitrary in-type samples (VERBATIM subframes)
c04_restore!(c04_restore_leftside_b16, ChannelAssignment::LeftSide, BitsPerSample::Bps16);

// @harness prop=C04 tier=thorough expect=pass timeout=600
// @units decode::read_subframes(LeftSide) decode::read_subframe audio::Frame::resized_stereo
// @bound block size 2, stereo LeftSide, 31 bits-per-sample (STREAMINFO-referenced; side channel fills an i32), 4 arbitrary in-type samples (VERBATIM subframes)
c04_restore!(c04_restore_leftside_b31, ChannelAssignment::LeftSide, BitsPerSample::Streaminfo(sbc32(31)));

// @harness prop=C04 tier=quick expect=pass timeout=600
// @units decode::read_subframes(LeftSide) decode::read_subframe audio::Frame::resized_stereo
// @bound block size 2, stereo LeftSide, 32 bits-per-sample (33-bit side channel, i64 path), 4 arbitrary in-type samples (VERBATIM subframes)
c04_restore!(c04_restore_leftside_b32, ChannelAssignment::LeftSide, BitsPerSample::Bps32);

// @harness prop=C04 tier=quick expect=pass timeout=600
// @units decode::read_subframes(SideRight) decode::read_subframe audio::Frame::resized_stereo
// @bound block size 2, stereo SideRight, 16 bits-per-sample, 4 arbitrary in-type samples (VERBATIM subframes)
c04_restore!(c04_restore_sideright_b16, ChannelAssignment::SideRight, BitsPerSample::Bps16);

// @harness prop=C04 tier=thorough expect=pass timeout=600
// @units decode::read_subframes(SideRight) decode::read_subframe audio::Frame::resized_stereo
// @bound block size 2, stereo SideRight, 31 bits-per-sample (STREAMINFO-referenced; side channel fills an i32), 4 arbitrary in-type samples (VERBATIM subframes)
c04_restore!(c04_restore_sideright_b31, ChannelAssignment::SideRight, BitsPerSample::Streaminfo(sbc32(31)));

// @harness prop=C04 tier=thorough expect=pass timeout=600
// @units decode::read_subframes(SideRight) decode::read_subframe audio::Frame::resized_stereo
// @bound block size 2, stereo SideRight, 32 bits-per-sample (33-bit side channel, i64 path), 4 arbitrary in-type samples (VERBATIM subframes)
c04_restore!(c04_restore_sideright_b32, ChannelAssignment::SideRight, BitsPerSample::Bps32);

// @harness prop=C04 tier=thorough expect=pass timeout=600
// @units decode::read_subframes(MidSide) decode::read_subframe audio::Frame::resized_stereo
// @bound block size 2, stereo MidSide, 16 bits-per-sample, 4 arbitrary in-type samples (VERBATIM subframes)
c04_restore!(c04_restore_midside_b16, ChannelAssignment::MidSide, BitsPerSample::Bps16);

// @harness prop=C04 tier=quick expect=pass timeout=600
// @units decode::read_subframes(MidSide) decode::read_subframe audio::Frame::resized_stereo
// @bound block size 2, stereo MidSide, 31 bits-per-sample (STREAMINFO-referenced; side channel fills an i32), 4 arbitrary in-type samples (VERBATIM subframes)
c04_restore!(c04_restore_midside_b31, ChannelAssignment::MidSide, BitsPerSample::Streaminfo(sbc32(31)));

// @harness prop=C04 tier=thorough expect=pass timeout=600
// @units decode::read_subframes(MidSide) decode::read_subframe audio::Frame::resized_stereo
// @bound block size 2, stereo MidSide, 32 bits-per-sample (33-bit side channel, i64 path), 4 arbitrary in-type samples (VERBATIM subframes)
c04_restore!(c04_restore_midside_b32, ChannelAssignment::MidSide, BitsPerSample::Bps32);

// @harness prop=C04 tier=quick expect=pass timeout=600
// @units decode::read_subframes(Independent) audio::Frame::resized_channels
// @bound block size 2, 2 independent channels, 32 bits-per-sample
c04_restore!(
    c04_restore_independent_b32,
    ChannelAssignment::Independent(Independent::Stereo),
    BitsPerSample::Bps32
);

// Restoration correctness (C03): for channel values that a VALID stream can
// carry (the restored left/right samples fit the bit depth), the restored
// samples are exactly those of RFC 9639 section 4.2 / 9.1.3.
macro_rules! c03_restore {
    ($name:ident, $ca:expr, $bps_enum:expr, $bps:expr, $mode:expr) => {
        #[kani::proof]
        #[kani::unwind(12)]
        fn $name() {
            let a: [u64; 2] = kani::any();
            let b: [u64; 2] = kani::any();
            let vals = restore_script2(a, b, kani::any());
            let mut r = ModelBits::new(Script::new(&vals), 63);
            let mut buf = Frame::default();
            let h = hdr(2, $ca, $bps_enum);
            let res = read_subframes(&mut r, &h, &mut buf);
            assert!(res.is_ok());
            // reference: sign-extend the raw fields at the widths the RFC gives them
            let sx = |raw: u64, bits: u32| -> i128 {
                let v = (raw & mask64(bits)) as i128;
                if (v >> (bits - 1)) & 1 == 1 { v - (1i128 << bits) } else { v }
            };
            let mut k = 0;
            while k < 2 {
                // mode 0 left/side, 1 side/right, 2 mid/side
                let (l, rr): (i128, i128) = match $mode {
                    0 => {
                        let left = sx(a[k], $bps);
                        let side = sx(b[k], $bps + 1);
                        (left, left - side)
                    }
                    1 => {
                        let side = sx(a[k], $bps + 1);
                        let right = sx(b[k], $bps);
                        (side + right, right)
                    }
                    _ => {
                        let mid = sx(a[k], $bps);
                        let side = sx(b[k], $bps + 1);
                        let m2 = (mid << 1) | (side & 1);
                        ((m2 + side) >> 1, (m2 - side) >> 1)
                    }
                };
                if refmodel::fits(l, $bps) && refmodel::fits(rr, $bps) {
                    let mut it = buf.channels();
                    let c0 = it.next().unwrap();
                    let c1 = it.next().unwrap();
                    assert!(i128::from(c0[k]) == l);
                    assert!(i128::from(c1[k]) == rr);
                }
                k += 1;
            }
            kani::cover!(res.is_ok());
            std::mem::forget(res);
            std::mem::forget(buf);
        }
    };
}

// @harness prop=C03 tier=quick expect=pass timeout=600
// @units decode::read_subframes(LeftSide)
// @bound block 2, LEFT_SIDE, 16 bps, every pair of in-type channel values whose restored samples fit 16 bits
// @oracle restored (left, right) == (left, left - side) computed in i128
c03_restore!(c03_restore_leftside_b16, ChannelAssignment::LeftSide, BitsPerSample::Bps16, 16, 0);

// @harness prop=C03 tier=quick expect=pass timeout=600
// @units decode::read_subframes(SideRight)
// @bound block 2, SIDE_RIGHT, 31 bps (STREAMINFO-referenced; 32-bit side channel in an i32)
// @oracle restored (left, right) == (side + right, right)
c03_restore!(c03_restore_sideright_b31, ChannelAssignment::SideRight, BitsPerSample::Streaminfo(sbc32(31)), 31, 1);

// @harness prop=C03 tier=quick expect=pass timeout=600
// @units decode::read_subframes(MidSide)
// @bound block 2, MID_SIDE, 16 bps
// @oracle restored == RFC mid/side reconstruction ((mid<<1 | side&1) +/- side) >> 1
c03_restore!(c03_restore_midside_b16, ChannelAssignment::MidSide, BitsPerSample::Bps16, 16, 2);

// @harness prop=C03 tier=quick expect=pass timeout=600
// @units decode::read_subframes(MidSide,32bps)
// @bound block 2, MID_SIDE at 32 bps (33-bit side channel, i64 path)
// @oracle restored == RFC mid/side reconstruction
c03_restore!(c03_restore_midside_b32, ChannelAssignment::MidSide, BitsPerSample::Bps32, 32, 2);

// @harness prop=C03 tier=quick expect=pass timeout=600
// @units decode::read_subframes(LeftSide,32bps)
// @bound block 2, LEFT_SIDE at 32 bps (33-bit side channel)
c03_restore!(c03_restore_leftside_b32, ChannelAssignment::LeftSide, BitsPerSample::Bps32, 32, 0);

// @harness prop=C03 tier=quick expect=pass timeout=600
// @units decode::read_subframes(SideRight,32bps)
// @bound block 2, SIDE_RIGHT at 32 bps (33-bit side channel)
c03_restore!(c03_restore_sideright_b32, ChannelAssignment::SideRight, BitsPerSample::Bps32, 32, 1);

// @harness prop=C03 tier=thorough expect=pass timeout=600
// @units decode::read_subframes(MidSide)
// @bound block 2, MID_SIDE, 31 bps
c03_restore!(c03_restore_midside_b31, ChannelAssignment::MidSide, BitsPerSample::Streaminfo(sbc32(31)), 31, 2);

// @harness prop=C03 tier=thorough expect=pass timeout=600
// @units decode::read_subframes(LeftSide)
// @bound block 2, LEFT_SIDE, 8 bps
c03_restore!(c03_restore_leftside_b8, ChannelAssignment::LeftSide, BitsPerSample::Bps8, 8, 0);

// @harness prop=C03 tier=thorough expect=pass timeout=600
// @units decode::read_subframes(SideRight)
// @bound block 2, SIDE_RIGHT, 24 bps
c03_restore!(c03_restore_sideright_b24, ChannelAssignment::SideRight, BitsPerSample::Bps24, 24, 1);

// vacuity twin: same harness shape with a final assert(false) must FAIL
// @harness prop=C04 tier=quick expect=fail timeout=600
// @units decode::read_subframes(MidSide)
// @bound reachability witness for the c04_restore_* family: the end of the harness is reachable
#[kani::proof]
#[kani::unwind(12)]
fn c04_restore_midside_twin() {
    let vals = restore_script2(kani::any(), kani::any(), kani::any());
    let mut r = ModelBits::new(Script::new(&vals), 63);
    let mut buf = Frame::default();
    let h = hdr(2, ChannelAssignment::MidSide, BitsPerSample::Bps16);
    let res = read_subframes(&mut r, &h, &mut buf);
    if res.is_ok() {
        assert!(false);
    }
    std::mem::forget(buf);
}

