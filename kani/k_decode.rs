// Harnesses over src/decode.rs (child module of `decode`: private items are reachable)
use super::*;
use crate::stream::{
    BitsPerSample, BlockSize, ChannelAssignment, FrameHeader, FrameNumber, Independent, SampleRate,
    SubframeHeaderType,
};
use crate::verif_env::*;

fn sbc32(bits: u32) -> SignedBitCount<32> {
    SignedBitCount::<32>::try_from(bits).unwrap()
}

fn any_bps32() -> SignedBitCount<32> {
    let b: u32 = kani::any();
    kani::assume(b >= 1 && b <= 32);
    sbc32(b)
}

fn hdr(block: u16, ca: ChannelAssignment, bps: BitsPerSample) -> FrameHeader {
    FrameHeader {
        blocking_strategy: false,
        block_size: BlockSize::Uncommon8(block),
        sample_rate: SampleRate::Hz44100,
        channel_assignment: ca,
        bits_per_sample: bps,
        frame_number: FrameNumber(0),
    }
}

// ===========================================================================
// C04: no panic / no unbounded loop on arbitrary input (dev profile: overflow
// checks and debug assertions on).  Oracle of every harness in this block: no
// failed check of any kind.
// ===========================================================================

// @harness prop=C04 tier=quick expect=pass timeout=900
// @units decode::read_residuals decode::read_residuals::read_block stream::ResidualPartitionHeader::from_reader
// @bound 2 residual slots; predictor order 0..=2; coding method, 4-bit partition order, rice/escape parameters and every residual field symbolic; unary run <= 7; end of data possible at every read
#[kani::proof]
#[kani::unwind(10)]
fn c04_read_residuals_n2() {
    let mut r = SymBits::arbitrary(7);
    let order: usize = kani::any();
    kani::assume(order <= 2);
    let mut res = [0i32; 2];
    let _ = read_residuals(&mut r, order, &mut res);
}

// @harness prop=C04 tier=thorough expect=pass timeout=1800
// @units decode::read_residuals decode::read_residuals::read_block stream::ResidualPartitionHeader::from_reader
// @bound 4 residual slots; predictor order 0..=4; everything else as c04_read_residuals_n2
#[kani::proof]
#[kani::unwind(10)]
fn c04_read_residuals_n4() {
    let mut r = SymBits::arbitrary(7);
    let order: usize = kani::any();
    kani::assume(order <= 4);
    let mut res = [0i32; 4];
    let _ = read_residuals(&mut r, order, &mut res);
}

// @harness prop=C04 tier=thorough expect=pass timeout=1800
// @units decode::read_residuals(i64) decode::read_residuals::read_block
// @bound wide (33-bit side channel) instantiation, 2 residual slots, predictor order 0..=2
#[kani::proof]
#[kani::unwind(10)]
fn c04_read_residuals_wide_n2() {
    let mut r = SymBits::arbitrary(7);
    let order: usize = kani::any();
    kani::assume(order <= 2);
    let mut res = [0i64; 2];
    let _ = read_residuals(&mut r, order, &mut res);
}

// @harness prop=C04 tier=quick expect=pass timeout=600
// @units decode::read_subframe<32,i32> stream::SubframeHeader::from_reader stream::SubframeHeaderType::from_reader
// @bound CONSTANT and VERBATIM subframes (type code pinned to 0 or 1, every other field symbolic incl. reserved bit and wasted-bits unary <= 63), bits-per-sample 1..=32, 2 samples, truncation after any field
#[kani::proof]
#[kani::unwind(10)]
fn c04_subframe_const_verbatim() {
    let vals: [u64; 8] = kani::any();
    kani::assume(vals[1] & 63 <= 1);
    let mut src = Script::new(&vals);
    src.eof_at = kani::any();
    let mut r = ModelBits::new(src, 63);
    let mut ch = [0i32; 2];
    let res = read_subframe::<32, _, i32>(&mut r, any_bps32(), &mut ch);
    kani::cover!(res.is_ok());
    kani::cover!(matches!(res, Err(Error::ExcessiveWastedBits)));
}

// @harness prop=C04 tier=quick expect=pass timeout=600
// @units decode::read_subframe<33,i64>
// @bound as c04_subframe_const_verbatim for the 33-bit side-channel instantiation (bits-per-sample 33)
#[kani::proof]
#[kani::unwind(10)]
fn c04_subframe_wide_const_verbatim() {
    let vals: [u64; 8] = kani::any();
    kani::assume(vals[1] & 63 <= 1);
    let mut src = Script::new(&vals);
    src.eof_at = kani::any();
    let mut r = ModelBits::new(src, 63);
    let mut ch = [0i64; 2];
    let res = read_subframe::<33, _, i64>(&mut r, SignedBitCount::<33>::new::<33>(), &mut ch);
    kani::cover!(res.is_ok());
}

// @harness prop=C04 tier=quick expect=pass timeout=600
// @units decode::read_subframe (reserved subframe type codes)
// @bound every 6-bit type code that is neither CONSTANT, VERBATIM, FIXED 0-4 nor LPC: must be an error, never a panic
// @oracle reserved codes => Err(InvalidSubframeHeaderType); set pad bit => Err(InvalidSubframeHeader)
#[kani::proof]
#[kani::unwind(10)]
fn c04_subframe_reserved_types() {
    let vals: [u64; 4] = kani::any();
    let t = vals[1] & 63;
    kani::assume((t >= 2 && t < 8) || (t > 12 && t < 32) || vals[0] & 1 == 1);
    let mut r = ModelBits::new(Script::new(&vals), 63);
    let mut ch = [0i32; 2];
    let res = read_subframe::<32, _, i32>(&mut r, any_bps32(), &mut ch);
    assert!(res.is_err());
    if vals[0] & 1 == 1 {
        assert!(matches!(res, Err(Error::InvalidSubframeHeader)));
    } else {
        assert!(matches!(res, Err(Error::InvalidSubframeHeaderType)));
    }
}

macro_rules! c04_predict_fixed {
    ($name:ident, $order:expr, $n:expr) => {
        #[kani::proof]
        #[kani::unwind(10)]
        fn $name() {
            let mut ch: [i32; $n] = kani::any();
            predict(SubframeHeaderType::FIXED_COEFFS[$order], 0, &mut ch);
        }
    };
}

// @harness prop=C04 tier=quick expect=pass timeout=300
// @units decode::predict<i32>
// @bound FIXED order 1, 3 arbitrary 32-bit values (warm-up + residuals as a malformed stream can deliver them)
c04_predict_fixed!(c04_predict_fixed_o1, 1, 3);

// @harness prop=C04 tier=quick expect=pass timeout=300
// @units decode::predict<i32>
// @bound FIXED order 2, 4 arbitrary 32-bit values
c04_predict_fixed!(c04_predict_fixed_o2, 2, 4);

// @harness prop=C04 tier=quick expect=pass timeout=300
// @units decode::predict<i32>
// @bound FIXED order 4, 5 arbitrary 32-bit values
c04_predict_fixed!(c04_predict_fixed_o4, 4, 5);

// @harness prop=C04 tier=quick expect=pass timeout=600
// @units decode::predict<i32>
// @bound LPC order 2, coefficients any 15-bit signed, shift 0..=15 (all a 5-bit non-negative field can hold), 4 arbitrary 32-bit values
#[kani::proof]
#[kani::unwind(10)]
fn c04_predict_lpc_o2() {
    let c: [i16; 2] = kani::any();
    kani::assume(c[0] >= -16384 && c[0] < 16384 && c[1] >= -16384 && c[1] < 16384);
    let coeffs = [i64::from(c[0]), i64::from(c[1])];
    let shift: u32 = kani::any();
    kani::assume(shift <= 15);
    let mut ch: [i32; 4] = kani::any();
    predict(&coeffs, shift, &mut ch);
}

// @harness prop=C04 tier=quick expect=pass timeout=600
// @units decode::predict<i64>
// @bound wide instantiation: LPC order 2, 15-bit coefficients, shift 0..=15, 4 values each within 33 bits plus a 32-bit residual range
#[kani::proof]
#[kani::unwind(10)]
fn c04_predict_wide_lpc_o2() {
    let c: [i16; 2] = kani::any();
    kani::assume(c[0] >= -16384 && c[0] < 16384 && c[1] >= -16384 && c[1] < 16384);
    let coeffs = [i64::from(c[0]), i64::from(c[1])];
    let shift: u32 = kani::any();
    kani::assume(shift <= 15);
    let mut ch: [i64; 4] = kani::any();
    for v in ch.iter() {
        kani::assume(*v >= -(1i64 << 33) && *v < (1i64 << 33));
    }
    predict(&coeffs, shift, &mut ch);
}

// Frame restoration: every subframe is VERBATIM with no wasted bits (concrete
// header fields), every sample field is symbolic, so the channels handed to the
// inter-channel restoration are arbitrary in-type values - what a malformed but
// checksum-correct frame can deliver.
fn restore_script2(a: [u64; 2], b: [u64; 2], crc: u64) -> [u64; 11] {
    [0, 1, 0, a[0], a[1], 0, 1, 0, b[0], b[1], crc]
}

macro_rules! c04_restore {
    ($name:ident, $ca:expr, $bps:expr) => {
        #[kani::proof]
        #[kani::unwind(12)]
        fn $name() {
            let vals = restore_script2(kani::any(), kani::any(), kani::any());
            let mut r = ModelBits::new(Script::new(&vals), 63);
            let mut buf = Frame::default();
            let h = hdr(2, $ca, $bps);
            let res = read_subframes(&mut r, &h, &mut buf);
            kani::cover!(res.is_ok());
            if res.is_ok() {
                assert!(buf.pcm_frames() == 2);
            }
            std::mem::forget(buf);
        }
    };
}

// @harness prop=C04 tier=quick expect=pass timeout=600
// @units decode::read_subframes(LeftSide) decode::read_subframe audio::Frame::resized_stereo
// @bound block size 2, stereo LEFT_SIDE, STREAMINFO-referenced bit depth 1..=31 symbolic, 4 arbitrary in-type samples
c04_restore!(c04_restore_leftside, ChannelAssignment::LeftSide, {
    let b = any_bps32();
    kani::assume(u32::from(b) < 32);
    BitsPerSample::Streaminfo(b)
});

// @harness prop=C04 tier=quick expect=pass timeout=600
// @units decode::read_subframes(SideRight)
// @bound block size 2, stereo SIDE_RIGHT, bit depth 1..=31 symbolic, 4 arbitrary in-type samples
c04_restore!(c04_restore_sideright, ChannelAssignment::SideRight, {
    let b = any_bps32();
    kani::assume(u32::from(b) < 32);
    BitsPerSample::Streaminfo(b)
});

// @harness prop=C04 tier=quick expect=pass timeout=600
// @units decode::read_subframes(MidSide)
// @bound block size 2, stereo MID_SIDE, bit depth 1..=31 symbolic, 4 arbitrary in-type samples
c04_restore!(c04_restore_midside, ChannelAssignment::MidSide, {
    let b = any_bps32();
    kani::assume(u32::from(b) < 32);
    BitsPerSample::Streaminfo(b)
});

// @harness prop=C04 tier=quick expect=pass timeout=600
// @units decode::read_subframes(LeftSide,32bps) decode::read_subframe<33,i64>
// @bound block size 2, LEFT_SIDE at 32 bits-per-sample (33-bit side channel path)
c04_restore!(c04_restore_leftside_32, ChannelAssignment::LeftSide, BitsPerSample::Bps32);

// @harness prop=C04 tier=quick expect=pass timeout=600
// @units decode::read_subframes(SideRight,32bps)
// @bound block size 2, SIDE_RIGHT at 32 bits-per-sample (33-bit side channel path)
c04_restore!(c04_restore_sideright_32, ChannelAssignment::SideRight, BitsPerSample::Bps32);

// @harness prop=C04 tier=quick expect=pass timeout=600
// @units decode::read_subframes(MidSide,32bps)
// @bound block size 2, MID_SIDE at 32 bits-per-sample (33-bit side channel path)
c04_restore!(c04_restore_midside_32, ChannelAssignment::MidSide, BitsPerSample::Bps32);

// @harness prop=C04 tier=quick expect=pass timeout=600
// @units decode::read_subframes(Independent) audio::Frame::resized_channels
// @bound block size 2, 2 independent channels, bit depth 1..=32 symbolic
c04_restore!(
    c04_restore_independent,
    ChannelAssignment::Independent(Independent::Stereo),
    BitsPerSample::Streaminfo(any_bps32())
);

// vacuity twin: same harness shape with a final assert(false) must FAIL
// @harness prop=C04 tier=quick expect=fail timeout=600
// @units decode::read_subframes(MidSide)
// @bound reachability witness for the c04_restore_* family: the end of the harness is reachable
#[kani::proof]
#[kani::unwind(12)]
fn c04_restore_midside_twin() {
    let vals = restore_script2(kani::any(), kani::any(), kani::any());
    let mut r = ModelBits::new(Script::new(&vals), 63);
    let mut buf = Frame::default();
    let h = hdr(2, ChannelAssignment::MidSide, BitsPerSample::Bps16);
    let res = read_subframes(&mut r, &h, &mut buf);
    if res.is_ok() {
        assert!(false);
    }
    std::mem::forget(buf);
}
