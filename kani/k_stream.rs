// Harnesses over src/stream.rs (child module of `stream`)
use super::*;
use crate::verif_env::refmodel;
use crate::verif_env::*;
use bitstream_io::{BitRead, BitWrite};

// ---------------------------------------------------------------------------
// Frame header field tables against RFC 9639 section 9.1 (C03: every coding is
// decoded to the value the format defines; C05: reserved codes are rejected)
// ---------------------------------------------------------------------------

/// RFC 9639 table 14 (block size bits); `extra` is the 8/16-bit "uncommon" field
fn rfc_block_size(code: u64, extra: u64) -> Option<u32> {
    match code {
        0 => None,
        1 => Some(192),
        2..=5 => Some(144u32 << code),
        6 => Some((extra & 0xFF) as u32 + 1),
        7 => Some((extra & 0xFFFF) as u32 + 1),
        _ => Some(1u32 << code),
    }
}

// @harness prop=C03,C05 tier=quick expect=pass timeout=300
// @units stream::BlockSize<()>::from_reader stream::BlockSize<u16>::from_reader stream::BlockSize::into_u16
// @bound all 16 block-size codes, all 8- and 16-bit uncommon values
// @oracle value == RFC 9639 block size table (144*2^n, 2^n, uncommon+1); code 0000 => Err(InvalidBlockSize); uncommon 16-bit value 65535 (block size 65536, not representable in STREAMINFO) => Err
#[kani::proof]
#[kani::unwind(4)]
fn c03_hdr_block_size_table() {
    let vals: [u64; 2] = kani::any();
    let mut r = ModelBits::new(Script::new(&vals), 15);
    let code = vals[0] & 15;
    let first: Result<BlockSize<()>, Error> = r.parse();
    match rfc_block_size(code, vals[1]) {
        None => assert!(matches!(first, Err(Error::InvalidBlockSize))),
        Some(expected) => {
            let first = first.unwrap();
            let full: Result<BlockSize<u16>, Error> = r.parse_using(first);
            if expected <= 65535 {
                let v: u16 = full.unwrap().into();
                assert!(u32::from(v) == expected);
            } else {
                assert!(matches!(full, Err(Error::InvalidBlockSize)));
            }
            // uncommon codes consume exactly their extra field
            let extra_bits = if code == 6 { 8 } else if code == 7 { 16 } else { 0 };
            assert!(r.pos == 4 + extra_bits);
        }
    }
}

/// RFC 9639 table 15 (sample rate bits)
fn rfc_sample_rate(code: u64, extra: u64, streaminfo: Option<u32>) -> Result<u32, bool> {
    // Err(true) = forbidden code, Err(false) = needs STREAMINFO but none given
    match code {
        0 => streaminfo.ok_or(false),
        1 => Ok(88200),
        2 => Ok(176400),
        3 => Ok(192000),
        4 => Ok(8000),
        5 => Ok(16000),
        6 => Ok(22050),
        7 => Ok(24000),
        8 => Ok(32000),
        9 => Ok(44100),
        10 => Ok(48000),
        11 => Ok(96000),
        12 => Ok((extra & 0xFF) as u32 * 1000),
        13 => Ok((extra & 0xFFFF) as u32),
        14 => Ok((extra & 0xFFFF) as u32 * 10),
        _ => Err(true),
    }
}

// @harness prop=C03,C05 tier=quick expect=pass timeout=300
// @units stream::SampleRate<()>::from_reader stream::SampleRate<u32>::from_reader stream::SampleRate::into_u32
// @bound all 16 sample-rate codes, all 8/16-bit uncommon values, STREAMINFO rate present (any 20-bit value) or absent
// @oracle value == RFC 9639 sample rate table; 1111 => Err(InvalidSampleRate); 0000 without STREAMINFO => Err(NonSubsetSampleRate)
#[kani::proof]
#[kani::unwind(4)]
fn c03_hdr_sample_rate_table() {
    let vals: [u64; 2] = kani::any();
    let si: Option<u32> = if kani::any() {
        let v: u32 = kani::any();
        kani::assume(v < (1 << 20));
        Some(v)
    } else {
        None
    };
    let mut r = ModelBits::new(Script::new(&vals), 15);
    let code = vals[0] & 15;
    let first: Result<SampleRate<()>, Error> = r.parse_using(si);
    match rfc_sample_rate(code, vals[1], si) {
        Err(true) => assert!(matches!(first, Err(Error::InvalidSampleRate))),
        Err(false) => assert!(matches!(first, Err(Error::NonSubsetSampleRate))),
        Ok(expected) => {
            let full: SampleRate<u32> = r.parse_using(first.unwrap()).unwrap();
            assert!(u32::from(full) == expected);
            let extra_bits = if code == 12 { 8 } else if code == 13 || code == 14 { 16 } else { 0 };
            assert!(r.pos == 4 + extra_bits);
        }
    }
}

// @harness prop=C03,C05 tier=quick expect=pass timeout=300
// @units stream::ChannelAssignment::from_reader stream::ChannelAssignment::count
// @bound all 16 channel-assignment codes
// @oracle 0..=7 => n+1 independent channels; 8/9/10 => left-side/side-right/mid-side (2 channels); 11..=15 => Err(InvalidChannels)
#[kani::proof]
#[kani::unwind(4)]
fn c03_hdr_channel_assignment_table() {
    let vals: [u64; 1] = kani::any();
    let mut r = ModelBits::new(Script::new(&vals), 15);
    let code = vals[0] & 15;
    let ca: Result<ChannelAssignment, Error> = r.parse();
    if code <= 7 {
        let ca = ca.unwrap();
        assert!(matches!(ca, ChannelAssignment::Independent(_)));
        assert!(u64::from(ca.count()) == code + 1);
    } else if code == 8 {
        assert!(matches!(ca, Ok(ChannelAssignment::LeftSide)));
    } else if code == 9 {
        assert!(matches!(ca, Ok(ChannelAssignment::SideRight)));
    } else if code == 10 {
        assert!(matches!(ca, Ok(ChannelAssignment::MidSide)));
    } else {
        assert!(matches!(ca, Err(Error::InvalidChannels)));
    }
}

// @harness prop=C03,C05 tier=quick expect=pass timeout=300
// @units stream::BitsPerSample::from_reader stream::BitsPerSample::into_u32 stream::BitsPerSample::checked_add
// @bound all 8 bit-depth codes; STREAMINFO depth present (1..=32) or absent
// @oracle RFC table 8/12/16/20/24/32; 000 => STREAMINFO depth or Err(NonSubsetBitsPerSample); 011 => Err(InvalidBitsPerSample); side-channel depth = depth+1, absent only at 32
#[kani::proof]
#[kani::unwind(4)]
fn c03_hdr_bits_per_sample_table() {
    let vals: [u64; 1] = kani::any();
    let si_bits: u32 = kani::any();
    kani::assume(si_bits >= 1 && si_bits <= 32);
    let si = if kani::any() {
        Some(SignedBitCount::<32>::try_from(si_bits).unwrap())
    } else {
        None
    };
    let mut r = ModelBits::new(Script::new(&vals), 15);
    let code = vals[0] & 7;
    let b: Result<BitsPerSample, Error> = r.parse_using(si);
    let expected: Option<u32> = match code {
        0 => si.map(|_| si_bits),
        1 => Some(8),
        2 => Some(12),
        4 => Some(16),
        5 => Some(20),
        6 => Some(24),
        7 => Some(32),
        _ => None,
    };
    match expected {
        Some(e) => {
            let b = b.unwrap();
            assert!(u32::from(b) == e);
            let sbc: SignedBitCount<32> = b.into();
            assert!(u32::from(sbc) == e);
            match b.checked_add(1) {
                Some(side) => assert!(u32::from(side) == e + 1 && e < 32),
                None => assert!(e == 32),
            }
        }
        None => {
            if code == 0 {
                assert!(matches!(b, Err(Error::NonSubsetBitsPerSample)));
            } else {
                assert!(matches!(b, Err(Error::InvalidBitsPerSample)));
            }
        }
    }
}

// @harness prop=C03,C05 tier=quick expect=pass timeout=300
// @units stream::SubframeHeaderType::from_reader stream::SubframeHeader::from_reader
// @bound all 64 subframe type codes, padding bit, wasted-bits flag and unary count (<= 63)
// @oracle RFC 9639 table 19: 0 constant, 1 verbatim, 8..=12 fixed order code-8, 32..=63 LPC order code-31, everything else Err(InvalidSubframeHeaderType); padding bit 1 => Err(InvalidSubframeHeader); wasted = 0 or unary+1
#[kani::proof]
#[kani::unwind(4)]
fn c03_subframe_type_table() {
    let vals: [u64; 4] = kani::any();
    let mut r = ModelBits::new(Script::new(&vals), 63);
    let h: Result<SubframeHeader, Error> = r.parse();
    let t = vals[1] & 63;
    if vals[0] & 1 == 1 {
        assert!(matches!(h, Err(Error::InvalidSubframeHeader)));
    } else if (t >= 2 && t <= 7) || (t >= 13 && t <= 31) {
        assert!(matches!(h, Err(Error::InvalidSubframeHeaderType)));
    } else {
        let h = h.unwrap();
        match h.type_ {
            SubframeHeaderType::Constant => assert!(t == 0),
            SubframeHeaderType::Verbatim => assert!(t == 1),
            SubframeHeaderType::Fixed { order } => assert!(u64::from(order) == t - 8 && order <= 4),
            SubframeHeaderType::Lpc { order } => assert!(u64::from(order.get()) == t - 31),
        }
        if vals[2] & 1 == 0 {
            assert!(h.wasted_bps == 0 && r.pos == 8);
        } else {
            let k = (vals[3] & 63) as u32;
            assert!(h.wasted_bps == k + 1 && r.pos == 8 + u64::from(k) + 1);
        }
    }
}

/// reference decoder for the "UTF-8-like" coded number of RFC 9639 9.1.5,
/// reading the same fields in the same granularity as the crate
/// (unary prefix, remaining bits of the first byte, then 2+6 bits per byte)
fn rfc_coded_number(r: &mut refmodel::R) -> Option<u64> {
    let ones = r.read_unary::<0>().unwrap();
    match ones {
        0 => Some(r.read_var::<u64>(7).unwrap()),
        1 => None,
        2..=7 => {
            let mut v: u64 = r.read_var::<u64>(7 - ones).unwrap();
            let mut k = 1;
            let mut ok = true;
            while k < ones {
                let marker = r.read_var::<u64>(2).unwrap();
                let payload = r.read_var::<u64>(6).unwrap();
                if marker != 0b10 {
                    ok = false;
                }
                v = (v << 6) | payload;
                k += 1;
            }
            if ok { Some(v) } else { None }
        }
        _ => None,
    }
}

macro_rules! coded_number {
    ($name:ident, $ones:expr) => {
        #[kani::proof]
        #[kani::unwind(9)]
        fn $name() {
            let mut vals: [u64; 14] = kani::any();
            vals[0] = $ones;
            let mut r1 = ModelBits::new(Script::new(&vals), 15);
            let got: Result<FrameNumber, Error> = r1.parse();
            let mut r2 = ModelBits::new(Script::new(&vals), 15);
            match rfc_coded_number(&mut r2) {
                Some(v) => {
                    assert!(matches!(got, Ok(FrameNumber(n)) if n == v));
                    assert!(r1.pos == r2.pos);
                    assert!(v < (1u64 << 36));
                }
                None => {
                    assert!(matches!(got, Err(Error::InvalidFrameNumber)));
                }
            }
            // never run the drop glue of a Result<_, Error> whose variant is
            // symbolic: Error::Io(io::Error) drags the whole io::Error
            // destructor (boxed dyn Error) into the formula
            std::mem::forget(got);
        }
    };
}

// @harness prop=C03,C05 tier=quick expect=pass timeout=300
// @units stream::FrameNumber::from_reader
// @bound 1-byte coding (0xxxxxxx), all values
// @oracle value == RFC 9639 coded number, same bits consumed
coded_number!(c03_hdr_coded_number_1, 0);

// @harness prop=C03,C05 tier=quick expect=pass timeout=300
// @units stream::FrameNumber::from_reader
// @bound first byte 10xxxxxx (a continuation byte where a lead byte is due)
// @oracle Err(InvalidFrameNumber)
coded_number!(c03_hdr_coded_number_bad_lead, 1);

// @harness prop=C03,C05 tier=quick expect=pass timeout=300
// @units stream::FrameNumber::from_reader
// @bound 2-byte coding, every payload and every continuation marker
// @oracle value == RFC coded number; marker != 10 => Err(InvalidFrameNumber)
coded_number!(c03_hdr_coded_number_2, 2);

// @harness prop=C03,C05 tier=quick expect=pass timeout=300
// @units stream::FrameNumber::from_reader
// @bound 3-byte coding
coded_number!(c03_hdr_coded_number_3, 3);

// @harness prop=C03,C05 tier=thorough expect=pass timeout=600
// @units stream::FrameNumber::from_reader
// @bound 4-byte coding
coded_number!(c03_hdr_coded_number_4, 4);

// @harness prop=C03,C05 tier=thorough expect=pass timeout=600
// @units stream::FrameNumber::from_reader
// @bound 5-byte coding
coded_number!(c03_hdr_coded_number_5, 5);

// @harness prop=C03,C05 tier=thorough expect=pass timeout=600
// @units stream::FrameNumber::from_reader
// @bound 6-byte coding
coded_number!(c03_hdr_coded_number_6, 6);

// @harness prop=C03,C05 tier=quick expect=pass timeout=600
// @units stream::FrameNumber::from_reader
// @bound 7-byte coding (36-bit numbers, variable block size streams), every payload and marker
coded_number!(c03_hdr_coded_number_7, 7);

// @harness prop=C03,C05 tier=quick expect=pass timeout=300
// @units stream::FrameNumber::from_reader
// @bound first byte 11111111
// @oracle Err(InvalidFrameNumber)
coded_number!(c03_hdr_coded_number_ff, 8);
