// Harnesses over src/stream.rs (child module of `stream`)
use super::*;
use crate::verif_env::refmodel;
use crate::verif_env::*;
use bitstream_io::{BitRead, BitWrite};

// ---------------------------------------------------------------------------
// Frame header field tables against RFC 9639 section 9.1 (C03: every coding is
// decoded to the value the format defines; C05: reserved codes are rejected)
// ---------------------------------------------------------------------------

/// RFC 9639 table 14 (block size bits); `extra` is the 8/16-bit "uncommon" field
fn rfc_block_size(code: u64, extra: u64) -> Option<u32> {
    match code {
        0 => None,
        1 => Some(192),
        2..=5 => Some(144u32 << code),
        6 => Some((extra & 0xFF) as u32 + 1),
        7 => Some((extra & 0xFFFF) as u32 + 1),
        _ => Some(1u32 << code),
    }
}

// @harness prop=C03,C04,C05 tier=quick expect=pass timeout=300
// @units stream::BlockSize<()>::from_reader stream::BlockSize<u16>::from_reader stream::BlockSize::into_u16
// @bound all 16 block-size codes, all 8- and 16-bit uncommon values
// @oracle value == RFC 9639 block size table (144*2^n, 2^n, uncommon+1); code 0000 => Err(InvalidBlockSize); uncommon 16-bit value 65535 (block size 65536, not representable in STREAMINFO) => Err
#[kani::proof]
#[kani::unwind(4)]
fn c03_hdr_block_size_table() {
    let vals: [u64; 2] = kani::any();
    let mut r = ModelBits::new(Script::new(&vals), 15);
    let code = vals[0] & 15;
    let first: Result<BlockSize<()>, Error> = r.parse();
    match rfc_block_size(code, vals[1]) {
        None => assert!(matches!(first, Err(Error::InvalidBlockSize))),
        Some(expected) => {
            let first = first.unwrap();
            let full: Result<BlockSize<u16>, Error> = r.parse_using(first);
            if expected <= 65535 {
                let v: u16 = full.unwrap().into();
                assert!(u32::from(v) == expected);
            } else {
                assert!(matches!(full, Err(Error::InvalidBlockSize)));
            }
            // uncommon codes consume exactly their extra field
            let extra_bits = if code == 6 { 8 } else if code == 7 { 16 } else { 0 };
            assert!(r.pos == 4 + extra_bits);
        }
    }
}

/// RFC 9639 table 15 (sample rate bits)
fn rfc_sample_rate(code: u64, extra: u64, streaminfo: Option<u32>) -> Result<u32, bool> {
    // Err(true) = forbidden code, Err(false) = needs STREAMINFO but none given
    match code {
        0 => streaminfo.ok_or(false),
        1 => Ok(88200),
        2 => Ok(176400),
        3 => Ok(192000),
        4 => Ok(8000),
        5 => Ok(16000),
        6 => Ok(22050),
        7 => Ok(24000),
        8 => Ok(32000),
        9 => Ok(44100),
        10 => Ok(48000),
        11 => Ok(96000),
        12 => Ok((extra & 0xFF) as u32 * 1000),
        13 => Ok((extra & 0xFFFF) as u32),
        14 => Ok((extra & 0xFFFF) as u32 * 10),
        _ => Err(true),
    }
}

// @harness prop=C03,C04,C05 tier=quick expect=pass timeout=300
// @units stream::SampleRate<()>::from_reader stream::SampleRate<u32>::from_reader stream::SampleRate::into_u32
// @bound all 16 sample-rate codes, all 8/16-bit uncommon values, STREAMINFO rate present (any 20-bit value) or absent
// @oracle value == RFC 9639 sample rate table; 1111 => Err(InvalidSampleRate); 0000 without STREAMINFO => Err(NonSubsetSampleRate)
#[kani::proof]
#[kani::unwind(4)]
fn c03_hdr_sample_rate_table() {
    let vals: [u64; 2] = kani::any();
    let si: Option<u32> = if kani::any() {
        let v: u32 = kani::any();
        kani::assume(v < (1 << 20));
        Some(v)
    } else {
        None
    };
    let mut r = ModelBits::new(Script::new(&vals), 15);
    let code = vals[0] & 15;
    let first: Result<SampleRate<()>, Error> = r.parse_using(si);
    match rfc_sample_rate(code, vals[1], si) {
        Err(true) => assert!(matches!(first, Err(Error::InvalidSampleRate))),
        Err(false) => assert!(matches!(first, Err(Error::NonSubsetSampleRate))),
        Ok(expected) => {
            let full: SampleRate<u32> = r.parse_using(first.unwrap()).unwrap();
            assert!(u32::from(full) == expected);
            let extra_bits = if code == 12 { 8 } else if code == 13 || code == 14 { 16 } else { 0 };
            assert!(r.pos == 4 + extra_bits);
        }
    }
}

// @harness prop=C03,C04,C05 tier=quick expect=pass timeout=300
// @units stream::ChannelAssignment::from_reader stream::ChannelAssignment::count
// @bound all 16 channel-assignment codes
// @oracle 0..=7 => n+1 independent channels; 8/9/10 => left-side/side-right/mid-side (2 channels); 11..=15 => Err(InvalidChannels)
#[kani::proof]
#[kani::unwind(4)]
fn c03_hdr_channel_assignment_table() {
    let vals: [u64; 1] = kani::any();
    let mut r = ModelBits::new(Script::new(&vals), 15);
    let code = vals[0] & 15;
    let ca: Result<ChannelAssignment, Error> = r.parse();
    if code <= 7 {
        let ca = ca.unwrap();
        assert!(matches!(ca, ChannelAssignment::Independent(_)));
        assert!(u64::from(ca.count()) == code + 1);
    } else if code == 8 {
        assert!(matches!(ca, Ok(ChannelAssignment::LeftSide)));
    } else if code == 9 {
        assert!(matches!(ca, Ok(ChannelAssignment::SideRight)));
    } else if code == 10 {
        assert!(matches!(ca, Ok(ChannelAssignment::MidSide)));
    } else {
        assert!(matches!(ca, Err(Error::InvalidChannels)));
    }
}

// @harness prop=C03,C04,C05 tier=quick expect=pass timeout=300
// @units stream::BitsPerSample::from_reader stream::BitsPerSample::into_u32 stream::BitsPerSample::checked_add
// @bound all 8 bit-depth codes; STREAMINFO depth present (1..=32) or absent
// @oracle RFC table 8/12/16/20/24/32; 000 => STREAMINFO depth or Err(NonSubsetBitsPerSample); 011 => Err(InvalidBitsPerSample); side-channel depth = depth+1, absent only at 32
#[kani::proof]
#[kani::unwind(4)]
fn c03_hdr_bits_per_sample_table() {
    let vals: [u64; 1] = kani::any();
    let si_bits: u32 = kani::any();
    kani::assume(si_bits >= 1 && si_bits <= 32);
    let si = if kani::any() {
        Some(SignedBitCount::<32>::try_from(si_bits).unwrap())
    } else {
        None
    };
    let mut r = ModelBits::new(Script::new(&vals), 15);
    let code = vals[0] & 7;
    let b: Result<BitsPerSample, Error> = r.parse_using(si);
    let expected: Option<u32> = match code {
        0 => si.map(|_| si_bits),
        1 => Some(8),
        2 => Some(12),
        4 => Some(16),
        5 => Some(20),
        6 => Some(24),
        7 => Some(32),
        _ => None,
    };
    match expected {
        Some(e) => {
            let b = b.unwrap();
            assert!(u32::from(b) == e);
            let sbc: SignedBitCount<32> = b.into();
            assert!(u32::from(sbc) == e);
            match b.checked_add(1) {
                Some(side) => assert!(u32::from(side) == e + 1 && e < 32),
                None => assert!(e == 32),
            }
        }
        None => {
            if code == 0 {
                assert!(matches!(b, Err(Error::NonSubsetBitsPerSample)));
            } else {
                assert!(matches!(b, Err(Error::InvalidBitsPerSample)));
            }
        }
    }
}

// @harness prop=C03,C04,C05 tier=quick expect=pass timeout=300
// @units stream::SubframeHeaderType::from_reader stream::SubframeHeader::from_reader
// @bound all 64 subframe type codes, padding bit, wasted-bits flag and unary count (<= 63)
// @oracle RFC 9639 table 19: 0 constant, 1 verbatim, 8..=12 fixed order code-8, 32..=63 LPC order code-31, everything else Err(InvalidSubframeHeaderType); padding bit 1 => Err(InvalidSubframeHeader); wasted = 0 or unary+1
#[kani::proof]
#[kani::unwind(4)]
fn c03_subframe_type_table() {
    let vals: [u64; 4] = kani::any();
    let mut r = ModelBits::new(Script::new(&vals), 63);
    let h: Result<SubframeHeader, Error> = r.parse();
    let t = vals[1] & 63;
    if vals[0] & 1 == 1 {
        assert!(matches!(h, Err(Error::InvalidSubframeHeader)));
    } else if (t >= 2 && t <= 7) || (t >= 13 && t <= 31) {
        assert!(matches!(h, Err(Error::InvalidSubframeHeaderType)));
    } else {
        let h = h.unwrap();
        match h.type_ {
            SubframeHeaderType::Constant => assert!(t == 0),
            SubframeHeaderType::Verbatim => assert!(t == 1),
            SubframeHeaderType::Fixed { order } => assert!(u64::from(order) == t - 8 && order <= 4),
            SubframeHeaderType::Lpc { order } => assert!(u64::from(order.get()) == t - 31),
        }
        if vals[2] & 1 == 0 {
            assert!(h.wasted_bps == 0 && r.pos == 8);
        } else {
            let k = (vals[3] & 63) as u32;
            assert!(h.wasted_bps == k + 1 && r.pos == 8 + u64::from(k) + 1);
        }
    }
}

/// reference decoder for the "UTF-8-like" coded number of RFC 9639 9.1.5,
/// reading the same fields in the same granularity as the crate
/// (unary prefix, remaining bits of the first byte, then 2+6 bits per byte)
fn rfc_coded_number(r: &mut refmodel::R) -> Option<u64> {
    let ones = r.read_unary::<0>().unwrap();
    match ones {
        0 => Some(r.read_var::<u64>(7).unwrap()),
        1 => None,
        2..=7 => {
            let mut v: u64 = r.read_var::<u64>(7 - ones).unwrap();
            let mut k = 1;
            let mut ok = true;
            while k < ones {
                let marker = r.read_var::<u64>(2).unwrap();
                let payload = r.read_var::<u64>(6).unwrap();
                if marker != 0b10 {
                    ok = false;
                }
                v = (v << 6) | payload;
                k += 1;
            }
            if ok { Some(v) } else { None }
        }
        _ => None,
    }
}

macro_rules! coded_number {
    ($name:ident, $ones:expr) => {
        #[kani::proof]
        #[kani::unwind(9)]
        fn $name() {
            let mut vals: [u64; 14] = kani::any();
            vals[0] = $ones;
            let mut r1 = ModelBits::new(Script::new(&vals), 15);
            let got: Result<FrameNumber, Error> = r1.parse();
            let mut r2 = ModelBits::new(Script::new(&vals), 15);
            match rfc_coded_number(&mut r2) {
                Some(v) => {
                    assert!(matches!(got, Ok(FrameNumber(n)) if n == v));
                    assert!(r1.pos == r2.pos);
                    assert!(v < (1u64 << 36));
                }
                None => {
                    assert!(matches!(got, Err(Error::InvalidFrameNumber)));
                }
            }
            // never run the drop glue of a Result<_, Error> whose variant is
            // symbolic: Error::Io(io::Error) drags the whole io::Error
            // destructor (boxed dyn Error) into the formula
            std::mem::forget(got);
        }
    };
}

// @harness prop=C03,C04,C05 tier=quick expect=pass timeout=300
// @units stream::FrameNumber::from_reader
// @bound 1-byte coding (0xxxxxxx), all values
// @oracle value == RFC 9639 coded number, same bits consumed
coded_number!(c03_hdr_coded_number_1, 0);

// @harness prop=C03,C04,C05 tier=quick expect=pass timeout=300
// @units stream::FrameNumber::from_reader
// @bound first byte 10xxxxxx (a continuation byte where a lead byte is due)
// @oracle Err(InvalidFrameNumber)
coded_number!(c03_hdr_coded_number_bad_lead, 1);

// @harness prop=C03,C04,C05 tier=quick expect=pass timeout=300
// @units stream::FrameNumber::from_reader
// @bound 2-byte coding, every payload and every continuation marker
// @oracle value == RFC coded number; marker != 10 => Err(InvalidFrameNumber)
coded_number!(c03_hdr_coded_number_2, 2);

// @harness prop=C03,C04,C05 tier=quick expect=pass timeout=300
// @units stream::FrameNumber::from_reader
// @bound 3-byte coding
coded_number!(c03_hdr_coded_number_3, 3);

// @harness prop=C03,C04,C05 tier=thorough expect=pass timeout=600
// @units stream::FrameNumber::from_reader
// @bound 4-byte coding
coded_number!(c03_hdr_coded_number_4, 4);

// @harness prop=C03,C04,C05 tier=thorough expect=pass timeout=600
// @units stream::FrameNumber::from_reader
// @bound 5-byte coding
coded_number!(c03_hdr_coded_number_5, 5);

// @harness prop=C03,C04,C05 tier=thorough expect=pass timeout=600
// @units stream::FrameNumber::from_reader
// @bound 6-byte coding
coded_number!(c03_hdr_coded_number_6, 6);

// @harness prop=C03,C04,C05 tier=quick expect=pass timeout=600
// @units stream::FrameNumber::from_reader
// @bound 7-byte coding (36-bit numbers, variable block size streams), every payload and marker
coded_number!(c03_hdr_coded_number_7, 7);

// @harness prop=C03,C04,C05 tier=quick expect=pass timeout=300
// @units stream::FrameNumber::from_reader
// @bound first byte 11111111
// @oracle Err(InvalidFrameNumber)
coded_number!(c03_hdr_coded_number_ff, 8);

// ===========================================================================
// C02: frame header serialisation against RFC 9639 section 9.1
// ===========================================================================

// @harness prop=C02,C15 tier=quick expect=pass timeout=300
// @units stream::BlockSize::try_from(u16) stream::BlockSize::into_u16 stream::SampleRate::try_from(u32) stream::SampleRate::into_u32
// @bound every u16 block size, every u32 sample rate
// @oracle the coding chosen for a value denotes that value again; block size 0 and sample rates >= 2^20 are errors, never panics; uncommon codings hold values their field can carry (8-bit: <= 256 samples / < 256 kHz, 16-bit: < 65536)
#[kani::proof]
fn c02_hdr_value_codings() {
    let b: u16 = kani::any();
    match BlockSize::<u16>::try_from(b) {
        Ok(bs) => {
            assert!(b != 0 && u16::from(bs) == b);
            match bs {
                BlockSize::Uncommon8(v) => assert!(v == b && b <= 256),
                BlockSize::Uncommon16(v) => assert!(v == b),
                _ => {}
            }
        }
        Err(_) => assert!(b == 0),
    }
    let r: u32 = kani::any();
    match SampleRate::<u32>::try_from(r) {
        Ok(sr) => {
            assert!(r < (1 << 20) && u32::from(sr) == r);
            match sr {
                SampleRate::KHz(v) => assert!(v % 1000 == 0 && v / 1000 < 256),
                SampleRate::DHz(v) => assert!(v % 10 == 0 && v / 10 < 65536),
                SampleRate::Hz(v) => assert!(v < 65536),
                _ => {}
            }
        }
        Err(_) => assert!(r >= (1 << 20)),
    }
}

/// RFC 9639 9.1 frame header, read field by field in the granularity the
/// writer uses (exact TokFifo): returns (blocking strategy, block size in
/// samples, sample rate in Hz or None = "see STREAMINFO", channel code,
/// bit-depth code, coded number) or None if a MUST is violated
fn rfc_frame_header<B: BitRead>(r: &mut B) -> Option<(bool, u32, Option<u32>, u8, u8, u64)> {
    let sync = r.read_var::<u32>(15).unwrap();
    if sync != 0b111_1111_1111_1100 {
        return None;
    }
    let blocking = r.read_var::<u8>(1).unwrap() == 1;
    let bs_code = r.read_var::<u8>(4).unwrap();
    let sr_code = r.read_var::<u8>(4).unwrap();
    let ch_code = r.read_var::<u8>(4).unwrap();
    let bps_code = r.read_var::<u8>(3).unwrap();
    if r.read_var::<u8>(1).unwrap() != 0 {
        return None;
    }
    // coded number
    let ones = r.read_unary::<0>().unwrap();
    let number: u64 = match ones {
        0 => r.read_var::<u64>(7).unwrap(),
        2..=7 => {
            let mut v: u64 = if ones < 7 { r.read_var::<u64>(7 - ones).unwrap() } else { 0 };
            let mut k = 1;
            while k < ones {
                let byte = r.read_var::<u64>(8).unwrap();
                if byte >> 6 != 0b10 {
                    return None;
                }
                v = (v << 6) | (byte & 0x3F);
                k += 1;
            }
            v
        }
        _ => return None,
    };
    let block_size: u32 = match bs_code {
        0 => return None,
        1 => 192,
        2..=5 => 144u32 << bs_code,
        6 => r.read_var::<u32>(8).unwrap() + 1,
        7 => r.read_var::<u32>(16).unwrap() + 1,
        _ => 1u32 << bs_code,
    };
    let rate: Option<u32> = match sr_code {
        0 => None,
        1 => Some(88200),
        2 => Some(176400),
        3 => Some(192000),
        4 => Some(8000),
        5 => Some(16000),
        6 => Some(22050),
        7 => Some(24000),
        8 => Some(32000),
        9 => Some(44100),
        10 => Some(48000),
        11 => Some(96000),
        12 => Some(r.read_var::<u32>(8).unwrap() * 1000),
        13 => Some(r.read_var::<u32>(16).unwrap()),
        14 => Some(r.read_var::<u32>(16).unwrap() * 10),
        _ => return None,
    };
    if ch_code > 10 || bps_code == 3 {
        return None;
    }
    Some((blocking, block_size, rate, ch_code, bps_code, number))
}

fn any_channel_assignment() -> (ChannelAssignment, u8) {
    let c: u8 = kani::any();
    kani::assume(c <= 10);
    let ca = match c {
        0 => ChannelAssignment::Independent(Independent::Mono),
        1 => ChannelAssignment::Independent(Independent::Stereo),
        8 => ChannelAssignment::LeftSide,
        9 => ChannelAssignment::SideRight,
        10 => ChannelAssignment::MidSide,
        n => ChannelAssignment::Independent(Independent::try_from(usize::from(n) + 1).unwrap()),
    };
    (ca, c)
}

fn any_bits_per_sample() -> (BitsPerSample, u32) {
    let b: u32 = kani::any();
    kani::assume(b >= 1 && b <= 32);
    (BitsPerSample::from(SignedBitCount::<32>::try_from(b).unwrap()), b)
}

macro_rules! hdr_conformance {
    ($name:ident, $lo:expr, $hi:expr) => {
        #[kani::proof]
        #[kani::unwind(9)]
        fn $name() {
            let b: u16 = kani::any();
            kani::assume(b >= 1);
            let rate: u32 = kani::any();
            kani::assume(rate < (1 << 20));
            let (ca, ch_code) = any_channel_assignment();
            let (bps, depth) = any_bits_per_sample();
            let number: u64 = kani::any();
            kani::assume(number >= $lo && number <= $hi);
            let h = FrameHeader {
                blocking_strategy: kani::any(),
                block_size: BlockSize::try_from(b).unwrap(),
                sample_rate: SampleRate::try_from(rate).unwrap(),
                channel_assignment: ca,
                bits_per_sample: bps,
                frame_number: FrameNumber(number),
            };
            let mut q = TokFifo::<24>::new();
            let w = h.build(&mut q);
            assert!(w.is_ok() && !q.failed);
            std::mem::forget(w);
            // whole bytes, at most 15 before the CRC-8
            assert!(q.wpos % 8 == 0 && q.wpos <= 15 * 8);
            let mut r = q.rewound();
            let got = rfc_frame_header(&mut r);
            assert!(got.is_some());
            let (blocking, block_size, rrate, rch, rbps, rnum) = got.unwrap();
            assert!(r.drained());
            assert!(blocking == h.blocking_strategy);
            assert!(block_size == u32::from(b));
            match rrate {
                Some(v) => assert!(v == rate),
                None => {} // refers to STREAMINFO, which carries the 20-bit rate
            }
            assert!(rch == ch_code);
            let expected_bps_code: u8 = match depth {
                8 => 1,
                12 => 2,
                16 => 4,
                20 => 5,
                24 => 6,
                32 => 7,
                _ => 0,
            };
            assert!(rbps == expected_bps_code);
            assert!(rnum == number);
        }
    };
}

// @harness prop=C02 tier=quick expect=pass timeout=900
// @units stream::FrameHeader::build stream::BlockSize::to_writer stream::SampleRate::to_writer stream::ChannelAssignment::to_writer stream::BitsPerSample::to_writer stream::FrameNumber::to_writer
// @bound every block size 1..=65535, sample rate 0..2^20-1, channel assignment, depth 1..=32, blocking bit; frame numbers 0..=0x7FF (1- and 2-byte codings)
// @oracle an independent RFC 9639 header parser accepts the emitted fields, consumes all of them and recovers the same block size, rate (or a STREAMINFO reference), channel code, depth code and number; header is whole bytes, <= 15 before the CRC
hdr_conformance!(c02_frame_header_bits_num_1_2, 0, 0x7FF);

// @harness prop=C02 tier=thorough expect=pass timeout=1800
// @units stream::FrameHeader::build stream::FrameNumber::to_writer
// @bound as above with frame numbers 0x800..=0x3FFFFFF (3-, 4-, 5-byte codings)
hdr_conformance!(c02_frame_header_bits_num_3_5, 0x800, 0x3FF_FFFF);

// @harness prop=C02 tier=thorough expect=pass timeout=1800
// @units stream::FrameHeader::build stream::FrameNumber::to_writer
// @bound as above with frame numbers 0x4000000..=2^36-1 (6- and 7-byte codings)
hdr_conformance!(c02_frame_header_bits_num_6_7, 0x400_0000, 0xF_FFFF_FFFF);

// ===========================================================================
// C17: the structural parser re-serialises what it parsed and agrees with the
// streaming decoder
// ===========================================================================

macro_rules! hdr_roundtrip {
    ($name:ident, $lo:expr, $hi:expr) => {
        #[kani::proof]
        #[kani::unwind(17)]
        fn $name() {
            let b: u16 = kani::any();
            kani::assume(b >= 1);
            let rate: u32 = kani::any();
            kani::assume(rate < (1 << 20));
            let (ca, _) = any_channel_assignment();
            let (bps, depth) = any_bits_per_sample();
            let number: u64 = kani::any();
            kani::assume(number >= $lo && number <= $hi);
            let h = FrameHeader {
                blocking_strategy: kani::any(),
                block_size: BlockSize::try_from(b).unwrap(),
                sample_rate: SampleRate::try_from(rate).unwrap(),
                channel_assignment: ca,
                bits_per_sample: bps,
                frame_number: FrameNumber(number),
            };
            let mut q = TokFifo::<24>::new();
            q.split = true; // the number is written as bytes and read as 2+6 bits
            let w = h.build(&mut q);
            assert!(w.is_ok() && !q.failed);
            std::mem::forget(w);
            q.push(0, 8, kani::any::<u8>() as u64); // CRC-8 byte (checked elsewhere)
            let mut r = q.rewound();
            let back = FrameHeader::parse(
                &mut r,
                Some(rate),
                Some(SignedBitCount::<32>::try_from(depth).unwrap()),
            );
            assert!(back.is_ok());
            let back = back.unwrap();
            assert!(r.drained());
            assert!(back.blocking_strategy == h.blocking_strategy);
            assert!(u16::from(back.block_size) == b);
            assert!(u32::from(back.sample_rate) == rate);
            assert!(back.channel_assignment == h.channel_assignment);
            assert!(u32::from(back.bits_per_sample) == depth);
            assert!(back.frame_number.0 == number);
            // and writing the parsed header again gives the same fields
            let mut q2 = TokFifo::<24>::new();
            let w2 = back.build(&mut q2);
            assert!(q2.len <= 16);
            assert!(w2.is_ok() && !q2.failed);
            std::mem::forget(w2);
            assert!(q2.len + 1 == q.len);
            let mut i = 0;
            while i < 16 {
                if i < q2.len {
                    assert!(q2.kinds[i] == q.kinds[i] && q2.widths[i] == q.widths[i] && q2.vals[i] == q.vals[i]);
                }
                i += 1;
            }
        }
    };
}

// @harness prop=C17,C02 tier=quick expect=pass timeout=900
// @units stream::FrameHeader::build stream::FrameHeader::parse stream::FrameNumber::from_reader stream::FrameNumber::to_writer
// @bound every header the encoder can construct (block size 1..=65535, rate 0..2^20-1, all channel assignments, depth 1..=32, blocking bit), frame numbers 0..=0x7FF
// @oracle parse(build(h)) == h field by field, consuming every bit; build(parse(..)) emits identical fields
hdr_roundtrip!(c17_header_roundtrip_num_1_2, 0, 0x7FF);

// @harness prop=C17,C02 tier=thorough expect=pass timeout=1800
// @units stream::FrameHeader::build stream::FrameHeader::parse
// @bound as above with frame numbers 0x800..=2^36-1 (3- to 7-byte codings)
hdr_roundtrip!(c17_header_roundtrip_num_3_7, 0x800, 0xF_FFFF_FFFF);

// ---------------------------------------------------------------------------
// structural subframe parser vs streaming decoder on the same field stream
// (pinned structure, symbolic values: the same scripts as the C03 family)
// ---------------------------------------------------------------------------

macro_rules! sub_struct {
    ($name:ident, $bps:expr, $n:expr, $slots:expr, $umask:expr, [$( ($idx:expr, $val:expr) ),*]) => {
        #[kani::proof]
        #[kani::unwind(10)]
        fn $name() {
            let mut vals: [u64; $slots] = kani::any();
            $( vals[$idx] = $val; )*
            let mut r1 = ModelBits::new(Script::new(&vals), $umask);
            let parsed: Result<Subframe<i32>, Error> =
                read_subframe::<32, _, i32>(&mut r1, $n as u16, SignedBitCount::<32>::new::<$bps>());
            let mut r2 = ModelBits::new(Script::new(&vals), $umask);
            let mut ch = [0i32; $n];
            let dec = <Hooks as DecodeHooks>::read_subframe_i32(&mut r2, $bps, &mut ch);
            // the two parsers accept and reject the same subframes
            assert!(parsed.is_ok() == dec.is_ok());
            if let Ok(sf) = &parsed {
                assert!(r1.pos == r2.pos);
                // the structure expands to exactly block-size samples, the decoder's
                let mut it = sf.decode();
                let mut i = 0;
                while i < $n {
                    assert!(it.next() == Some(ch[i]));
                    i += 1;
                }
                assert!(it.next().is_none());
                std::mem::forget(it);
                // writing the structure back emits the fields that were read
                let mut q = TokFifo::<$slots>::new();
                let w = write_subframe(&mut q, SignedBitCount::<32>::new::<$bps>(), sf);
                assert!(w.is_ok() && !q.failed);
                std::mem::forget(w);
                assert!(q.wpos == r1.pos);
            }
            std::mem::forget(parsed);
            std::mem::forget(dec);
        }
    };
}

// parse-only variant for subframes with residuals: `Subframe::decode` and the
// write-back walk `Box<dyn Iterator>` + `flat_map` chains over the partition
// vectors, on which CBMC's symbolic execution does not terminate in the budget
// (measured: no progress in 600 s even on a directly constructed 2-residual
// structure), so those two obligations are limited to CONSTANT/VERBATIM.
macro_rules! sub_accept {
    ($name:ident, $bps:expr, $n:expr, $slots:expr, $umask:expr, [$( ($idx:expr, $val:expr) ),*]) => {
        #[kani::proof]
        #[kani::unwind(10)]
        fn $name() {
            let mut vals: [u64; $slots] = kani::any();
            $( vals[$idx] = $val; )*
            let mut r1 = ModelBits::new(Script::new(&vals), $umask);
            let parsed: Result<Subframe<i32>, Error> =
                read_subframe::<32, _, i32>(&mut r1, $n as u16, SignedBitCount::<32>::new::<$bps>());
            let mut r2 = ModelBits::new(Script::new(&vals), $umask);
            let mut ch = [0i32; $n];
            let dec = <Hooks as DecodeHooks>::read_subframe_i32(&mut r2, $bps, &mut ch);
            assert!(parsed.is_ok() == dec.is_ok());
            if parsed.is_ok() {
                assert!(r1.pos == r2.pos);
            }
            std::mem::forget(parsed);
            std::mem::forget(dec);
        }
    };
}

// Every *structural* field is pinned (type, wasted-bits flag and count, coding
// method, partition order, Rice parameters / escape widths): the parsed
// structure then has one concrete shape and only the values are symbolic.
// slot layout: [0]=padding bit, [1]=type code, [2]=wasted flag, ([3]=wasted unary count),
// FIXED order k: k warm-up slots, method, partition order, then per partition: parameter, (escape width), residual fields

// @harness prop=C17 tier=quick expect=pass timeout=600
// @units stream::read_subframe stream::Subframe::decode stream::write_subframe decode::read_subframe
// @bound VERBATIM subframe, 16 bps, block 3, no wasted bits, samples symbolic
// @oracle same accept/reject as the streaming decoder; decode() yields exactly the decoder's samples; same bits consumed; write(parse(x)) emits as many bits as were read
sub_struct!(c17_sub_verbatim_b16, 16, 3, 6, 63, [(0, 0), (1, 1), (2, 0)]);

// @harness prop=C17 tier=quick expect=pass timeout=600
// @units stream::read_subframe stream::Subframe::decode stream::write_subframe decode::read_subframe
// @bound CONSTANT subframe, 16 bps, block 3, 3 wasted bits (flag set, unary count pinned to 2), sample symbolic
sub_struct!(c17_sub_const_b16_w3, 16, 3, 5, 63, [(0, 0), (1, 0), (2, 1), (3, 2)]);

// @harness prop=C17 tier=quick expect=pass timeout=900
// @units stream::read_subframe stream::Residuals::from_reader stream::ResidualPartition::from_reader stream::Subframe::decode stream::write_subframe decode::read_subframe
// @bound FIXED order 1, 16 bps, block 3, Rice method 0, partition order 0, Rice parameter 2; warm-up, quotients (<= 7) and remainder bits symbolic
sub_accept!(c17_sub_fixed1_b16_n3_r2, 16, 3, 11, 7, [(0, 0), (1, 9), (2, 0), (4, 0), (5, 0), (6, 2)]);

// @harness prop=C17 tier=quick expect=pass timeout=900
// @units stream::Residuals::from_reader stream::ResidualPartition::from_reader decode::read_residuals
// @bound FIXED order 1, 16 bps, block 3, method 0, partition order 0, escaped partition with 5-bit residuals
sub_accept!(c17_sub_fixed1_b16_n3_esc5, 16, 3, 10, 7, [(0, 0), (1, 9), (2, 0), (4, 0), (5, 0), (6, 15), (7, 5)]);

// @harness prop=C17 tier=quick expect=pass timeout=900
// @units stream::Residuals::from_reader decode::read_residuals
// @bound FIXED order 1, 16 bps, block 4, method 0, partition order 2 (4 partitions of 1: the first one is left empty by the predictor order - RFC 9639 forbids it), all-zero partitions (escape width 0)
// @oracle both parsers reject (or both accept)
sub_accept!(c17_sub_fixed1_b16_n4_po2, 16, 4, 16, 7, [(0, 0), (1, 9), (2, 0), (4, 0), (5, 2), (6, 15), (7, 0), (8, 15), (9, 0), (10, 15), (11, 0), (12, 15), (13, 0)]);

// @harness prop=C17 tier=quick expect=pass timeout=900
// @units stream::Residuals::from_reader decode::read_residuals
// @bound FIXED order 0, 16 bps, block 2, method 0, partition order 3 (8 partitions for a block of 2: more partitions than samples), all-zero partitions
// @oracle both parsers reject (or both accept)
sub_accept!(c17_sub_fixed0_b16_n2_po3, 16, 2, 24, 7, [(0, 0), (1, 8), (2, 0), (3, 0), (4, 3), (5, 15), (6, 0), (7, 15), (8, 0), (9, 15), (10, 0), (11, 15), (12, 0), (13, 15), (14, 0), (15, 15), (16, 0), (17, 15), (18, 0), (19, 15), (20, 0)]);

// @harness prop=C17 tier=quick expect=pass timeout=1800
// @units stream::read_subframe stream::Subframe::decode decode::read_subframe
// @bound LPC order 1, 16 bps, block 3, precision 3 bits, shift symbolic (incl. negative), method 0, partition order 0, Rice parameter 1
sub_accept!(c17_sub_lpc1_b16_n3_p3_r1, 16, 3, 14, 7, [(0, 0), (1, 32), (2, 0), (4, 2), (7, 0), (8, 0), (9, 1)]);

// @harness prop=C17 tier=thorough expect=pass timeout=1800
// @units stream::read_subframe stream::Subframe::decode decode::read_subframe
// @bound FIXED order 2, 32 bps (full-scale warm-up), block 4, method 1, partition order 0, Rice parameter 30 (5-bit parameters): extreme residuals
sub_accept!(c17_sub_fixed2_b32_n4_r30, 32, 4, 14, 7, [(0, 0), (1, 10), (2, 0), (5, 1), (6, 0), (7, 30)]);


// ===========================================================================
// C05: every frame header is checked against STREAMINFO
// ===========================================================================

// @harness prop=C05,C03 tier=quick expect=pass timeout=900
// @units stream::FrameHeader::from_reader(Streaminfo) stream::FrameHeader::parse
// @bound any header field values (1-byte coded number pinned; all block-size, sample-rate, channel and depth codes incl. uncommon and STREAMINFO-referenced ones); STREAMINFO with arbitrary maximum block size, 20-bit rate, 1..=8 channels, depth 1..=32
// @oracle Ok(h) => h.block_size <= maximum block size, h.sample_rate == STREAMINFO rate, channel count == STREAMINFO channels, depth == STREAMINFO depth (anything else must be one of the documented errors)
#[kani::proof]
#[kani::unwind(6)]
fn c05_header_streaminfo_consistency() {
    let mut vals: [u64; 12] = kani::any();
    vals[0] = 0b111_1111_1111_1100; // sync
    vals[7] = 0; // 1-byte coded number
    let rate: u32 = kani::any();
    kani::assume(rate < (1 << 20));
    let channels: u8 = kani::any();
    kani::assume(channels >= 1 && channels <= 8);
    let depth: u32 = kani::any();
    kani::assume(depth >= 1 && depth <= 32);
    let si = crate::metadata::Streaminfo {
        minimum_block_size: 16,
        maximum_block_size: kani::any(),
        minimum_frame_size: None,
        maximum_frame_size: None,
        sample_rate: rate,
        channels: std::num::NonZero::new(channels).unwrap(),
        bits_per_sample: SignedBitCount::<32>::try_from(depth).unwrap(),
        total_samples: None,
        md5: None,
    };
    let mut r = ModelBits::new(Script::new(&vals), 15);
    let h: Result<FrameHeader, Error> = r.parse_with(&si);
    if let Ok(h) = &h {
        assert!(u16::from(h.block_size) <= si.maximum_block_size);
        assert!(u32::from(h.sample_rate) == rate);
        assert!(h.channel_assignment.count() == channels);
        assert!(u32::from(h.bits_per_sample) == depth);
    }
    kani::cover!(h.is_ok());
    kani::cover!(matches!(h, Err(Error::ChannelsMismatch)));
    kani::cover!(matches!(h, Err(Error::BlockSizeMismatch)));
    std::mem::forget(h);
}

// @harness prop=C02 tier=quick expect=pass timeout=600
// @units stream::FrameNumber::to_writer
// @bound every frame / sample number 0..2^36-1 (all seven coding lengths) and the first illegal value 2^36
// @oracle an independent reader of the RFC 9639 coded number (lead byte 0xxxxxxx / 110xxxxx / ... / 11111110, continuation bytes 10xxxxxx) recovers the number and consumes every field; the coding is the shortest one that holds the value; 2^36 and above are refused
#[kani::proof]
#[kani::unwind(9)]
fn c02_coded_number_writer_all_lengths() {
    let n: u64 = kani::any();
    kani::assume(n <= (1 << 36));
    let mut q = TokFifo::<10>::new();
    let w = FrameNumber(n).to_writer(&mut q);
    if n == (1 << 36) {
        assert!(w.is_err());
        std::mem::forget(w);
        return;
    }
    assert!(w.is_ok() && !q.failed);
    std::mem::forget(w);
    let mut r = q.rewound();
    let ones = r.read_unary::<0>().unwrap();
    let v: u64 = match ones {
        0 => r.read_var::<u64>(7).unwrap(),
        2..=7 => {
            let mut v: u64 = if ones < 7 { r.read_var::<u64>(7 - ones).unwrap() } else { 0 };
            let mut k = 1;
            while k < ones {
                let byte = r.read_var::<u64>(8).unwrap();
                assert!(byte >> 6 == 0b10);
                v = (v << 6) | (byte & 0x3F);
                k += 1;
            }
            v
        }
        _ => {
            assert!(false);
            0
        }
    };
    assert!(r.drained());
    assert!(v == n);
    // shortest coding: 7, 11, 16, 21, 26, 31, 36 payload bits
    let bits: u32 = match ones {
        0 => 7,
        2 => 11,
        3 => 16,
        4 => 21,
        5 => 26,
        6 => 31,
        _ => 36,
    };
    let shorter: u32 = match ones {
        0 => 0,
        2 => 7,
        3 => 11,
        4 => 16,
        5 => 21,
        6 => 26,
        _ => 31,
    };
    assert!(n < (1u64 << bits));
    assert!(shorter == 0 || n >= (1u64 << shorter));
    assert!(q.wpos % 8 == 0);
}

// @harness prop=C05,C04 tier=quick expect=pass timeout=600
// @units stream::FrameHeader::parse
// @bound any 15-bit value other than the sync code in the sync position, every other field arbitrary
// @oracle Err(InvalidSyncCode) and nothing after the sync field is consumed
#[kani::proof]
#[kani::unwind(4)]
fn c05_header_bad_sync_rejected() {
    let vals: [u64; 6] = kani::any();
    kani::assume(vals[0] & 0x7FFF != 0b111_1111_1111_1100);
    let mut src = Script::new(&vals);
    src.trip_at = 1;
    let mut r = ModelBits::new(src, 15);
    let h: Result<FrameHeader, Error> = r.parse();
    assert!(matches!(h, Err(Error::InvalidSyncCode)));
    std::mem::forget(h);
}

// @harness prop=C04 tier=quick expect=pass timeout=600
// @units stream::FrameHeader::parse stream::FrameHeader::from_reader(Streaminfo)
// @bound a whole frame header from an arbitrary bit source: every field arbitrary, coded number of any length (unary prefix <= 15), end of data possible at every read; with and without STREAMINFO
// @oracle never a panic
#[kani::proof]
#[kani::unwind(10)]
fn c04_frame_header_any_bits() {
    let mut r = SymBits::arbitrary(15);
    let h: Result<FrameHeader, Error> = r.parse();
    std::mem::forget(h);
    let si = crate::metadata::Streaminfo {
        minimum_block_size: 16,
        maximum_block_size: kani::any(),
        minimum_frame_size: None,
        maximum_frame_size: None,
        sample_rate: 44100,
        channels: std::num::NonZero::new(2).unwrap(),
        bits_per_sample: SignedBitCount::<32>::new::<16>(),
        total_samples: None,
        md5: None,
    };
    let mut r = SymBits::arbitrary(15);
    let h: Result<FrameHeader, Error> = r.parse_with(&si);
    std::mem::forget(h);
}
