// Shared verification environment (compiled only under cfg(kani)).
//
// Everything here implements traits the crate is *already generic over*
// (`bitstream_io::BitRead`, `bitstream_io::BitWrite`, `std::io::{Read,Write,Seek,BufRead}`)
// so that harnesses can drive the real functions of the crate with
// solver-chosen environments.  Each type's contract is stated next to it: the
// contract is part of every claim that uses the type.



use bitstream_io::{
    BitCount, BitRead, BitWrite, Endianness, Primitive, SignedBitCount, SignedInteger,
    UnsignedInteger,
};
use std::io;

// ---------------------------------------------------------------------------
// integer plumbing (bitstream-io's numeric traits are deliberately minimal)
// ---------------------------------------------------------------------------

/// builds any `UnsignedInteger` from the low bytes of a u64
#[inline]
pub fn u_from_u64<U: UnsignedInteger>(v: u64) -> U {
    let mut buf = U::buffer();
    let src = v.to_le_bytes();
    {
        let dst = buf.as_mut();
        let n = if dst.len() < 8 { dst.len() } else { 8 };
        let mut k = 0;
        while k < n {
            dst[k] = src[k];
            k += 1;
        }
    }
    U::from_le_bytes(buf)
}

/// low 64 bits of any `UnsignedInteger`
#[inline]
pub fn u_to_u64<U: UnsignedInteger>(v: U) -> u64 {
    let b = v.to_le_bytes();
    let src = b.as_ref();
    let mut out = [0u8; 8];
    let n = if src.len() < 8 { src.len() } else { 8 };
    let mut k = 0;
    while k < n {
        out[k] = src[k];
        k += 1;
    }
    u64::from_le_bytes(out)
}

#[inline]
pub fn mask64(bits: u32) -> u64 {
    if bits >= 64 { u64::MAX } else { (1u64 << bits) - 1 }
}

#[inline]
fn eof() -> io::Error {
    io::Error::from(io::ErrorKind::UnexpectedEof)
}

#[inline]
fn invalid() -> io::Error {
    io::Error::from(io::ErrorKind::InvalidInput)
}

// ---------------------------------------------------------------------------
// ValueSource: where a model bit reader gets its field values from
// ---------------------------------------------------------------------------

/// A source of field values for [`ModelBits`].
pub trait ValueSource {
    /// next raw 64-bit value (masked by the caller), or `None` for end of data
    fn next(&mut self) -> Option<u64>;
    /// arbitrary byte for whole-`Primitive` reads
    fn next_byte(&mut self) -> Option<u8> {
        self.next().map(|v| v as u8)
    }
}

/// Fully nondeterministic source: every read returns an arbitrary value and
/// may instead report end of data (when `may_fail`).  "For all behaviours of
/// this source" = "for all byte strings" because FLAC frame parsing is
/// strictly sequential.
pub struct AnySource {
    pub may_fail: bool,
}

impl ValueSource for AnySource {
    #[inline]
    fn next(&mut self) -> Option<u64> {
        if self.may_fail && kani::any::<bool>() {
            None
        } else {
            Some(kani::any())
        }
    }
}

/// Scripted source: the i-th primitive read returns `vals[i]` (masked to the
/// requested width by the reader).  Reading past `eof_at` reports end of
/// data.  Two consumers given equal scripts see the same stream, which is
/// what the differential harnesses need; a counterexample is just `vals`.
pub struct Script<'a> {
    pub vals: &'a [u64],
    pub i: usize,
    pub eof_at: usize,
}

impl<'a> Script<'a> {
    pub fn new(vals: &'a [u64]) -> Self {
        Self {
            vals,
            i: 0,
            eof_at: vals.len(),
        }
    }
}

impl ValueSource for Script<'_> {
    #[inline]
    fn next(&mut self) -> Option<u64> {
        if self.i < self.eof_at && self.i < self.vals.len() {
            let v = self.vals[self.i];
            self.i += 1;
            Some(v)
        } else {
            None
        }
    }
}

// ---------------------------------------------------------------------------
// ModelBits: BitRead over a ValueSource
// ---------------------------------------------------------------------------

/// A `BitRead` whose fields come from a [`ValueSource`].
///
/// Contract (mirrors `bitstream_io::BitReader`):
/// * an unsigned read of `n` bits returns a value `< 2^n`, or `InvalidInput`
///   if `n` exceeds the output type;
/// * a signed read of `n` bits returns a value in `[-2^(n-1), 2^(n-1))`;
/// * `read_unary` returns a count `<= unary_mask` (a `2^k-1` mask: the bound on
///   unary run length is stated by each harness);
/// * any read may fail with `UnexpectedEof` when the source says so;
/// * the bit position advances by exactly the bits consumed (unary: count+1).
pub struct ModelBits<S> {
    pub src: S,
    /// total bits consumed
    pub pos: u64,
    /// number of primitive reads served
    pub reads: u32,
    /// mask applied to unary counts (must be 2^k - 1)
    pub unary_mask: u32,
}

impl<S: ValueSource> ModelBits<S> {
    pub fn new(src: S, unary_mask: u32) -> Self {
        Self {
            src,
            pos: 0,
            reads: 0,
            unary_mask,
        }
    }

    #[inline]
    fn take(&mut self, bits: u32) -> io::Result<u64> {
        match self.src.next() {
            Some(v) => {
                self.pos += u64::from(bits);
                self.reads += 1;
                Ok(v & mask64(bits))
            }
            None => Err(eof()),
        }
    }
}

pub type SymBits = ModelBits<AnySource>;

impl SymBits {
    /// arbitrary stream; every read may hit end of data
    pub fn arbitrary(unary_mask: u32) -> Self {
        ModelBits::new(AnySource { may_fail: true }, unary_mask)
    }
    /// arbitrary stream that never ends
    pub fn endless(unary_mask: u32) -> Self {
        ModelBits::new(AnySource { may_fail: false }, unary_mask)
    }
}

impl<S: ValueSource> BitRead for ModelBits<S> {
    fn read_unsigned_counted<const MAX: u32, U>(&mut self, bits: BitCount<MAX>) -> io::Result<U>
    where
        U: UnsignedInteger,
    {
        let bits: u32 = bits.into();
        if MAX <= U::BITS_SIZE || bits <= U::BITS_SIZE {
            self.take(bits).map(u_from_u64::<U>)
        } else {
            Err(invalid())
        }
    }

    fn read_signed_counted<const MAX: u32, I>(
        &mut self,
        bits: impl TryInto<SignedBitCount<MAX>>,
    ) -> io::Result<I>
    where
        I: SignedInteger,
    {
        let count: SignedBitCount<MAX> = bits.try_into().map_err(|_| invalid())?;
        let bits: u32 = count.into();
        if MAX <= I::BITS_SIZE || bits <= I::BITS_SIZE {
            // one field: sign bit followed by bits-1 magnitude bits
            let raw = self.take(bits)?;
            let negative = (raw >> (bits - 1)) & 1 == 1;
            let unsigned: I::Unsigned = u_from_u64(raw & mask64(bits - 1));
            Ok(if negative {
                unsigned.as_negative(bits)
            } else {
                unsigned.as_non_negative()
            })
        } else {
            Err(invalid())
        }
    }

    fn read_to<V>(&mut self) -> io::Result<V>
    where
        V: Primitive,
    {
        let mut buf = V::buffer();
        for b in buf.as_mut().iter_mut() {
            *b = self.src.next_byte().ok_or_else(eof)?;
            self.pos += 8;
        }
        Ok(V::from_be_bytes(buf))
    }

    fn read_as_to<F, V>(&mut self) -> io::Result<V>
    where
        F: Endianness,
        V: Primitive,
    {
        // byte order is irrelevant for an arbitrary value
        self.read_to::<V>()
    }

    fn skip(&mut self, bits: u32) -> io::Result<()> {
        match self.src.next() {
            Some(_) => {
                self.pos += u64::from(bits);
                Ok(())
            }
            None => Err(eof()),
        }
    }

    fn read_unary<const STOP_BIT: u8>(&mut self) -> io::Result<u32> {
        match self.src.next() {
            Some(v) => {
                let n = (v as u32) & self.unary_mask;
                self.pos += u64::from(n) + 1;
                self.reads += 1;
                Ok(n)
            }
            None => Err(eof()),
        }
    }

    #[inline]
    fn byte_aligned(&self) -> bool {
        self.pos % 8 == 0
    }

    #[inline]
    fn byte_align(&mut self) {
        self.pos = (self.pos + 7) / 8 * 8;
    }
}
