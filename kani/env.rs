// Shared verification environment (compiled only under cfg(kani)).
//
// Everything here implements traits the crate is *already generic over*
// (`bitstream_io::BitRead`, `bitstream_io::BitWrite`, `std::io::{Read,Write,Seek,BufRead}`)
// so that harnesses can drive the real functions of the crate with
// solver-chosen environments.  Each type's contract is stated next to it: the
// contract is part of every claim that uses the type.



use bitstream_io::{
    BitCount, BitRead, BitWrite, Endianness, Primitive, SignedBitCount, SignedInteger,
    UnsignedInteger,
};
use std::io;

// ---------------------------------------------------------------------------
// integer plumbing (bitstream-io's numeric traits are deliberately minimal)
// ---------------------------------------------------------------------------

/// builds any `UnsignedInteger` from the low bits of a u64 (loop-free)
#[inline]
pub fn u_from_u64<U: UnsignedInteger>(v: u64) -> U {
    let b = v.to_le_bytes();
    let mut out = U::from_u8(b[0]);
    out |= U::from_u8(b[1]).checked_shl(8).unwrap_or(U::ZERO);
    out |= U::from_u8(b[2]).checked_shl(16).unwrap_or(U::ZERO);
    out |= U::from_u8(b[3]).checked_shl(24).unwrap_or(U::ZERO);
    out |= U::from_u8(b[4]).checked_shl(32).unwrap_or(U::ZERO);
    out |= U::from_u8(b[5]).checked_shl(40).unwrap_or(U::ZERO);
    out |= U::from_u8(b[6]).checked_shl(48).unwrap_or(U::ZERO);
    out |= U::from_u8(b[7]).checked_shl(56).unwrap_or(U::ZERO);
    out
}

/// low 64 bits of any `UnsignedInteger` (loop-free)
#[inline]
pub fn u_to_u64<U: UnsignedInteger>(v: U) -> u64 {
    let byte = |k: u32| -> u64 {
        match v.checked_shr(8 * k) {
            Some(x) => u64::from(x.to_u8()),
            None => 0,
        }
    };
    byte(0)
        | (byte(1) << 8)
        | (byte(2) << 16)
        | (byte(3) << 24)
        | (byte(4) << 32)
        | (byte(5) << 40)
        | (byte(6) << 48)
        | (byte(7) << 56)
}

#[inline]
pub fn mask64(bits: u32) -> u64 {
    if bits >= 64 { u64::MAX } else { (1u64 << bits) - 1 }
}

#[inline]
fn eof() -> io::Error {
    io::Error::from(io::ErrorKind::UnexpectedEof)
}

#[inline]
fn invalid() -> io::Error {
    io::Error::from(io::ErrorKind::InvalidInput)
}

// ---------------------------------------------------------------------------
// ValueSource: where a model bit reader gets its field values from
// ---------------------------------------------------------------------------

/// A source of field values for [`ModelBits`].
pub trait ValueSource {
    /// next raw 64-bit value (masked by the caller), or `None` for end of data
    fn next(&mut self) -> Option<u64>;
    /// arbitrary byte for whole-`Primitive` reads
    fn next_byte(&mut self) -> Option<u8> {
        self.next().map(|v| v as u8)
    }
}

/// Fully nondeterministic source: every read returns an arbitrary value and
/// may instead report end of data (when `may_fail`).  "For all behaviours of
/// this source" = "for all byte strings" because FLAC frame parsing is
/// strictly sequential.
pub struct AnySource {
    pub may_fail: bool,
}

impl ValueSource for AnySource {
    #[inline]
    fn next(&mut self) -> Option<u64> {
        if self.may_fail && kani::any::<bool>() {
            None
        } else {
            Some(kani::any())
        }
    }
}

/// Scripted source: the i-th primitive read returns `vals[i]` (masked to the
/// requested width by the reader).  Reading past `eof_at` reports end of
/// data.  Two consumers given equal scripts see the same stream, which is
/// what the differential harnesses need; a counterexample is just `vals`.
pub struct Script<'a> {
    pub vals: &'a [u64],
    pub i: usize,
    pub eof_at: usize,
    /// tripwire: index of the first read that must never happen (a harness
    /// that pins an illegal field at slot k sets this to k+1).  A read at or
    /// beyond it is reported as a failed check under its real path condition;
    /// the path is then cut so that symbolic execution does not walk the rest
    /// of the parser along paths that have already returned an error.
    pub trip_at: usize,
}

impl<'a> Script<'a> {
    pub fn new(vals: &'a [u64]) -> Self {
        Self {
            vals,
            i: 0,
            eof_at: vals.len(),
            trip_at: usize::MAX,
        }
    }
}

impl ValueSource for Script<'_> {
    #[inline]
    fn next(&mut self) -> Option<u64> {
        // the index advances on every call, served or not, so that it stays a
        // compile-time constant along every path (a symbolic index would make
        // the pinned structural fields of a script symbolic again)
        let k = self.i;
        self.i = k + 1;
        if k >= self.trip_at {
            kani::assert(false, "stream read past the point where the input had to be rejected");
            kani::assume(false);
        }
        if k < self.vals.len() && k < self.eof_at {
            Some(self.vals[k])
        } else {
            None
        }
    }
}

// ---------------------------------------------------------------------------
// ModelBits: BitRead over a ValueSource
// ---------------------------------------------------------------------------

/// A `BitRead` whose fields come from a [`ValueSource`].
///
/// Contract (mirrors `bitstream_io::BitReader`):
/// * an unsigned read of `n` bits returns a value `< 2^n`, or `InvalidInput`
///   if `n` exceeds the output type;
/// * a signed read of `n` bits returns a value in `[-2^(n-1), 2^(n-1))`;
/// * `read_unary` returns a count `<= unary_mask` (a `2^k-1` mask: the bound on
///   unary run length is stated by each harness);
/// * any read may fail with `UnexpectedEof` when the source says so;
/// * the bit position advances by exactly the bits consumed (unary: count+1).
pub struct ModelBits<S> {
    pub src: S,
    /// total bits consumed
    pub pos: u64,
    /// number of primitive reads served
    pub reads: u32,
    /// mask applied to unary counts (must be 2^k - 1)
    pub unary_mask: u32,
}

impl<S: ValueSource> ModelBits<S> {
    pub fn new(src: S, unary_mask: u32) -> Self {
        Self {
            src,
            pos: 0,
            reads: 0,
            unary_mask,
        }
    }

    #[inline]
    fn take(&mut self, bits: u32) -> io::Result<u64> {
        match self.src.next() {
            Some(v) => {
                self.pos += u64::from(bits);
                self.reads += 1;
                Ok(v & mask64(bits))
            }
            None => Err(eof()),
        }
    }
}

pub type SymBits = ModelBits<AnySource>;

impl SymBits {
    /// arbitrary stream; every read may hit end of data
    pub fn arbitrary(unary_mask: u32) -> Self {
        ModelBits::new(AnySource { may_fail: true }, unary_mask)
    }
    /// arbitrary stream that never ends
    pub fn endless(unary_mask: u32) -> Self {
        ModelBits::new(AnySource { may_fail: false }, unary_mask)
    }
}

impl<S: ValueSource> BitRead for ModelBits<S> {
    fn read_unsigned_counted<const MAX: u32, U>(&mut self, bits: BitCount<MAX>) -> io::Result<U>
    where
        U: UnsignedInteger,
    {
        let bits: u32 = bits.into();
        if MAX <= U::BITS_SIZE || bits <= U::BITS_SIZE {
            self.take(bits).map(u_from_u64::<U>)
        } else {
            Err(invalid())
        }
    }

    fn read_signed_counted<const MAX: u32, I>(
        &mut self,
        bits: impl TryInto<SignedBitCount<MAX>>,
    ) -> io::Result<I>
    where
        I: SignedInteger,
    {
        let count: SignedBitCount<MAX> = bits.try_into().map_err(|_| invalid())?;
        let bits: u32 = count.into();
        if MAX <= I::BITS_SIZE || bits <= I::BITS_SIZE {
            // one field: sign bit followed by bits-1 magnitude bits
            let raw = self.take(bits)?;
            let negative = (raw >> (bits - 1)) & 1 == 1;
            let unsigned: I::Unsigned = u_from_u64(raw & mask64(bits - 1));
            Ok(if negative {
                unsigned.as_negative(bits)
            } else {
                unsigned.as_non_negative()
            })
        } else {
            Err(invalid())
        }
    }

    fn read_to<V>(&mut self) -> io::Result<V>
    where
        V: Primitive,
    {
        let mut buf = V::buffer();
        for b in buf.as_mut().iter_mut() {
            *b = self.src.next_byte().ok_or_else(eof)?;
            self.pos += 8;
        }
        Ok(V::from_be_bytes(buf))
    }

    fn read_as_to<F, V>(&mut self) -> io::Result<V>
    where
        F: Endianness,
        V: Primitive,
    {
        // byte order is irrelevant for an arbitrary value
        self.read_to::<V>()
    }

    fn skip(&mut self, bits: u32) -> io::Result<()> {
        match self.src.next() {
            Some(_) => {
                self.pos += u64::from(bits);
                Ok(())
            }
            None => Err(eof()),
        }
    }

    fn read_unary<const STOP_BIT: u8>(&mut self) -> io::Result<u32> {
        match self.src.next() {
            Some(v) => {
                let n = (v as u32) & self.unary_mask;
                self.pos += u64::from(n) + 1;
                self.reads += 1;
                Ok(n)
            }
            None => Err(eof()),
        }
    }

    #[inline]
    fn byte_aligned(&self) -> bool {
        self.pos % 8 == 0
    }

    #[inline]
    fn byte_align(&mut self) {
        self.pos = (self.pos + 7) / 8 * 8;
    }
}

// ---------------------------------------------------------------------------
// Reference model (oracle): one FLAC subframe decoded directly from RFC 9639
// section 9.2, in i128 arithmetic, sharing no code with the crate.  It reads
// through the same `ModelBits<Script>` so that it sees the same field values
// as the code under test.
// ---------------------------------------------------------------------------

pub mod refmodel {
    use super::{ModelBits, Script};
    use bitstream_io::BitRead;

    pub type R<'a> = ModelBits<Script<'a>>;

    /// verdict of the reference decoder
    #[derive(Clone, Copy, PartialEq, Eq)]
    pub enum Verdict {
        /// the stream is a valid subframe; the samples are in `out`
        Valid,
        /// the stream violates a MUST of the RFC
        Invalid,
        /// the RFC does not settle it / outside the model (e.g. value does not fit)
        Unspecified,
    }

    #[inline]
    fn u<B: BitRead>(r: &mut B, bits: u32) -> u128 {
        // the script never ends inside a harness that uses the oracle
        r.read_var::<u64>(bits).unwrap() as u128
    }

    #[inline]
    fn s<B: BitRead>(r: &mut B, bits: u32) -> i128 {
        // two's complement, most significant bit first
        let raw = u(r, bits);
        if bits == 0 {
            0
        } else if (raw >> (bits - 1)) & 1 == 1 {
            raw as i128 - (1i128 << bits)
        } else {
            raw as i128
        }
    }

    #[inline]
    pub fn fits(v: i128, bits: u32) -> bool {
        v >= -(1i128 << (bits - 1)) && v < (1i128 << (bits - 1))
    }

    /// residual section (RFC 9639 9.2.7) for a block of `n` samples with
    /// predictor order `order`; writes residuals to out[order..n]
    pub fn residuals<B: BitRead>(r: &mut B, order: usize, n: usize, out: &mut [i128]) -> Verdict {
        let method = u(r, 2);
        if method > 1 {
            return Verdict::Invalid;
        }
        let pbits: u32 = if method == 0 { 4 } else { 5 };
        let po = u(r, 4) as u32;
        let pc: usize = 1usize << po;
        if n % pc != 0 {
            return Verdict::Invalid;
        }
        let plen = n >> po;
        if plen < order {
            return Verdict::Invalid;
        }
        if plen == order {
            // an empty first partition: the RFC wording ("larger than") rules
            // it out, decoders differ; the oracle takes no position
            return Verdict::Unspecified;
        }
        let mut verdict = Verdict::Valid;
        let mut idx = order;
        let mut p = 0;
        while p < pc {
            let count = if p == 0 { plen - order } else { plen };
            let param = u(r, pbits) as u32;
            if param == (1 << pbits) - 1 {
                let w = u(r, 5) as u32;
                let mut k = 0;
                while k < count {
                    out[idx] = if w == 0 { 0 } else { s(r, w) };
                    idx += 1;
                    k += 1;
                }
            } else {
                let mut k = 0;
                while k < count {
                    let q = r.read_unary::<1>().unwrap() as u128;
                    let lsb = u(r, param);
                    let folded = (q << param) | lsb;
                    let v: i128 = if folded & 1 == 1 {
                        -((folded >> 1) as i128) - 1
                    } else {
                        (folded >> 1) as i128
                    };
                    // residuals MUST fit a 32-bit signed integer and MUST NOT
                    // be the most negative one
                    if !(v > -(1i128 << 31) && v < (1i128 << 31)) {
                        verdict = Verdict::Invalid;
                    }
                    out[idx] = v;
                    idx += 1;
                    k += 1;
                }
            }
            p += 1;
        }
        verdict
    }

    /// one subframe of `n` samples at `bps` bits per sample (1..=33)
    pub fn subframe<B: BitRead>(r: &mut B, bps: u32, n: usize, out: &mut [i128]) -> Verdict {
        if u(r, 1) != 0 {
            return Verdict::Invalid;
        }
        let t = u(r, 6) as u32;
        let wasted = if u(r, 1) == 1 {
            r.read_unary::<1>().unwrap() + 1
        } else {
            0
        };
        let kind_ok = t <= 1 || (8..=12).contains(&t) || t >= 32;
        if !kind_ok {
            return Verdict::Invalid;
        }
        if wasted >= bps {
            return Verdict::Invalid;
        }
        let eb = bps - wasted;
        let mut verdict = Verdict::Valid;
        if t == 0 {
            let v = s(r, eb);
            let mut i = 0;
            while i < n {
                out[i] = v;
                i += 1;
            }
        } else if t == 1 {
            let mut i = 0;
            while i < n {
                out[i] = s(r, eb);
                i += 1;
            }
        } else if t < 32 {
            let order = (t - 8) as usize;
            if order > n {
                return Verdict::Invalid;
            }
            let mut i = 0;
            while i < order {
                out[i] = s(r, eb);
                i += 1;
            }
            verdict = residuals(r, order, n, out);
            if verdict == Verdict::Unspecified {
                return verdict;
            }
            let mut i = order;
            while i < n {
                let p: i128 = match order {
                    0 => 0,
                    1 => out[i - 1],
                    2 => 2 * out[i - 1] - out[i - 2],
                    3 => 3 * out[i - 1] - 3 * out[i - 2] + out[i - 3],
                    _ => 4 * out[i - 1] - 6 * out[i - 2] + 4 * out[i - 3] - out[i - 4],
                };
                out[i] += p;
                i += 1;
            }
        } else {
            let order = (t - 31) as usize;
            if order > n {
                return Verdict::Invalid;
            }
            let mut i = 0;
            while i < order {
                out[i] = s(r, eb);
                i += 1;
            }
            let prec = u(r, 4) as u32;
            if prec == 15 {
                return Verdict::Invalid;
            }
            let prec = prec + 1;
            let shift = s(r, 5);
            if shift < 0 {
                return Verdict::Invalid;
            }
            let mut c = [0i128; 32];
            let mut i = 0;
            while i < order {
                c[i] = s(r, prec);
                i += 1;
            }
            verdict = residuals(r, order, n, out);
            if verdict == Verdict::Unspecified {
                return verdict;
            }
            let mut i = order;
            while i < n {
                // coefficient (<= 15 bits) x sample (<= 34 bits here) fits i64;
                // a history value outside 40 bits means an earlier sample already
                // left the legal range: the oracle then takes no position
                let mut acc: i64 = 0;
                let mut j = 0;
                while j < order {
                    let h = out[i - 1 - j];
                    if !fits(h, 40) {
                        return Verdict::Unspecified;
                    }
                    acc += (c[j] as i64) * (h as i64);
                    j += 1;
                }
                // arithmetic shift right == floor division by 2^shift
                out[i] += (acc >> (shift as u32)) as i128;
                i += 1;
            }
        }
        // samples before re-adding the wasted bits MUST fit the effective width
        let mut i = 0;
        while i < n {
            if !fits(out[i], eb) {
                if verdict == Verdict::Valid {
                    verdict = Verdict::Unspecified;
                }
            }
            out[i] <<= wasted;
            i += 1;
        }
        verdict
    }
}

// ---------------------------------------------------------------------------
// TokFifo: an exact model of "the bits written are the bits read"
// ---------------------------------------------------------------------------
//
// A first-in first-out queue of bit fields.  The writer side implements
// `BitWrite` with the contract of `bitstream_io::BitWriter` (a value that does
// not fit its width is an `InvalidInput` error - the encoder's fallback chain
// depends on that - and nothing is queued for it).  The reader side implements
// `BitRead` and hands the queued bits back most-significant bit first,
// whatever the granularity of the requests (a request may take part of a
// field or span several).  Unary runs are queued as such; reading a unary run
// where a fixed field is queued (or vice versa) is expanded bit by bit for
// fields up to 64 bits.  It stands in for BitWriter/BitRecorder -> bytes ->
// BitReader (a dependency of the crate, not the subject), without symbolic bit
// offsets.

/// the endianness marker types are zero-sized and their conversion functions
/// private to bitstream-io: tell them apart by name (constant-folded)
#[inline]
fn is_little_endian<F: Endianness>() -> bool {
    let n = core::any::type_name::<F>().as_bytes();
    n.len() >= 12 && n[n.len() - 12] == b'L'
}

#[derive(Copy, Clone)]
pub struct Tok {
    /// 0 = fixed-width field, 1 = unary run terminated by a 0 bit (run of ones),
    /// 2 = unary run terminated by a 1 bit (run of zeros)
    pub kind: u8,
    /// fixed: width in bits (fields wider than 64 bits are all-zero padding);
    /// unary: run length (the stop bit is not counted)
    pub bits: u64,
    /// fixed: the value, right-aligned
    pub val: u64,
}

pub const TOK_EMPTY: Tok = Tok { kind: 0, bits: 0, val: 0 };

pub struct TokFifo<const N: usize> {
    // one array per field: arrays of scalars indexed by constants are
    // constant-propagated by CBMC's field sensitivity, arrays of structs are not
    pub kinds: [u8; N],
    pub widths: [u64; N],
    pub vals: [u64; N],
    /// number of queued tokens
    pub len: usize,
    /// index of the token at the head of the queue
    pub rd: usize,
    /// bits already consumed from the head token
    pub used: u64,
    /// total bits written / read
    pub wpos: u64,
    pub rpos: u64,
    /// set when a write was attempted with the queue full (harness bound too small)
    pub overflowed: bool,
    /// set when a write was rejected (value does not fit its width)
    pub failed: bool,
    /// strict: a rejected write returns `InvalidInput` like BitWriter does.
    /// Not strict (default): the rejection is only recorded in `failed` and
    /// the write returns Ok, so that the writer's control flow - and with it
    /// every slot index - stays independent of the values written; a harness
    /// then reads "failed" as "the real writer returned an error at the first
    /// rejected field".
    pub strict: bool,
    /// exact (default): every read request must coincide with one queued
    /// field (same kind, same width); the request then pops exactly one slot
    /// whatever the values are, so slot indices stay compile-time constants,
    /// and a request that does not coincide is a failed check ("granularity").
    /// Not exact: requests may take part of a field or span several (needed
    /// where writer and reader use different field boundaries, e.g. the coded
    /// frame number is written as bytes and read as 2+6 bits).
    pub exact: bool,
    /// split (off by default; takes precedence over `exact`): a request may
    /// take the leading part of the field at the head of the queue but never
    /// spans two fields; loop-free.  Meant for streams whose field widths are
    /// concrete (frame headers), where it keeps slot indices concrete.
    pub split: bool,
}

impl<const N: usize> TokFifo<N> {
    pub fn new() -> Self {
        Self {
            kinds: [0; N],
            widths: [0; N],
            vals: [0; N],
            len: 0,
            rd: 0,
            used: 0,
            wpos: 0,
            rpos: 0,
            overflowed: false,
            failed: false,
            strict: false,
            exact: true,
            split: false,
        }
    }

    /// Queues one field.  The slot index advances on every call (zero-width
    /// fields and fields whose value was rejected included) so that it stays a
    /// compile-time constant whenever the writer's control flow is concrete.
    #[inline]
    pub fn push(&mut self, kind: u8, bits: u64, val: u64) {
        if self.len < N {
            self.kinds[self.len] = kind;
            self.widths[self.len] = bits;
            self.vals[self.len] = val;
            self.len += 1;
            self.wpos += if kind == 0 { bits } else { bits + 1 };
        } else {
            self.overflowed = true;
            kani::assert(false, "TokFifo capacity exceeded: raise the harness bound");
        }
    }

    #[inline]
    pub fn tok(&self, i: usize) -> Tok {
        Tok { kind: self.kinds[i], bits: self.widths[i], val: self.vals[i] }
    }

    /// everything written has been read
    pub fn drained(&self) -> bool {
        self.rd == self.len && self.used == 0
    }

    /// a reader over the same queued fields, positioned at the start
    pub fn rewound(&self) -> Self {
        Self {
            kinds: self.kinds,
            widths: self.widths,
            vals: self.vals,
            len: self.len,
            rd: 0,
            used: 0,
            wpos: self.wpos,
            rpos: 0,
            overflowed: self.overflowed,
            failed: self.failed,
            strict: self.strict,
            exact: self.exact,
            split: self.split,
        }
    }

    /// exact mode: pops one slot, which must be a fixed field of `n` bits
    #[inline]
    fn take_exact(&mut self, kind: u8, n: u64) -> io::Result<u64> {
        if self.rd >= self.len {
            return Err(eof());
        }
        let i = self.rd;
        self.rd = i + 1;
        kani::assert(
            self.kinds[i] == kind && self.widths[i] == n,
            "TokFifo granularity: a read request does not coincide with a written field",
        );
        self.rpos += if kind == 0 { n } else { n + 1 };
        Ok(self.vals[i])
    }

    /// split mode: the leading `n` bits of what is left of the head field
    #[inline]
    fn take_split(&mut self, n: u64) -> io::Result<u64> {
        if n == 0 {
            return Ok(0);
        }
        if self.rd >= self.len {
            return Err(eof());
        }
        let i = self.rd;
        let rem = self.widths[i] - self.used;
        kani::assert(
            self.kinds[i] == 0 && n <= rem && rem <= 64,
            "TokFifo granularity: a read request spans two written fields",
        );
        let v = (self.vals[i] >> (rem - n)) & mask64(n as u32);
        if n == rem {
            self.rd = i + 1;
            self.used = 0;
        } else {
            self.used += n;
        }
        self.rpos += n;
        Ok(v)
    }

    /// takes `n <= 64` bits, most significant first
    fn take(&mut self, n: u32) -> io::Result<u64> {
        if self.split {
            return self.take_split(u64::from(n));
        }
        if self.exact {
            return self.take_exact(0, u64::from(n));
        }
        let mut need = u64::from(n);
        let mut out: u64 = 0;
        // at most 9 fields per request (a u64 assembled from bytes is 8)
        let mut guard = 0;
        while need > 0 {
            kani::assert(guard < 10, "TokFifo: request spans more than 9 fields");
            guard += 1;
            if self.rd >= self.len {
                return Err(eof());
            }
            let t = self.tok(self.rd);
            if t.kind != 0 {
                // fixed-width request against a unary run: hand the run out bit by bit
                let run = t.bits;
                let fill: u64 = if t.kind == 1 { 1 } else { 0 };
                let avail = run + 1 - self.used;
                let k = if need < avail { need } else { avail };
                // bits used..used+k of: run x fill, then one stop bit
                let mut j = 0;
                while j < k {
                    let pos = self.used + j;
                    let bit = if pos < run { fill } else { 1 - fill };
                    out = (out << 1) | bit;
                    j += 1;
                }
                need -= k;
                self.used += k;
                if self.used == run + 1 {
                    self.rd += 1;
                    self.used = 0;
                }
                continue;
            }
            let avail = t.bits - self.used;
            if need >= avail {
                // whole remainder of this field
                let part = if avail >= 64 { t.val } else { t.val & mask64(avail as u32) };
                out = if avail >= 64 { part } else { (out << avail) | part };
                need -= avail;
                self.rd += 1;
                self.used = 0;
            } else {
                let rest = avail - need;
                let part = if rest >= 64 { 0 } else { (t.val >> rest) & mask64(need as u32) };
                out = (out << need) | part;
                self.used += need;
                need = 0;
            }
        }
        self.rpos += u64::from(n);
        Ok(out)
    }
}

impl<const N: usize> BitWrite for TokFifo<N> {
    fn write_unsigned_counted<const BITS: u32, U>(
        &mut self,
        bits: BitCount<BITS>,
        value: U,
    ) -> io::Result<()>
    where
        U: UnsignedInteger,
    {
        let bits: u32 = bits.into();
        if BITS <= U::BITS_SIZE || bits <= U::BITS_SIZE {
            // a rejected value is still queued (masked) so that the slot
            // index does not depend on the value; the caller sees the error
            self.push(0, u64::from(bits), u_to_u64(value) & mask64(bits));
            if !(bits == U::BITS_SIZE || value < (U::ONE << bits)) {
                self.failed = true;
                if self.strict {
                    return Err(invalid());
                }
            }
            Ok(())
        } else {
            Err(invalid())
        }
    }

    fn write_signed_counted<const MAX: u32, S>(
        &mut self,
        bits: impl TryInto<SignedBitCount<MAX>>,
        value: S,
    ) -> io::Result<()>
    where
        S: SignedInteger,
    {
        let count: SignedBitCount<MAX> = bits.try_into().map_err(|_| invalid())?;
        let bits: u32 = count.into();
        if MAX <= S::BITS_SIZE || bits <= S::BITS_SIZE {
            let ub = bits - 1;
            let fits = bits == S::BITS_SIZE
                || (((S::ZERO - S::ONE) << ub) <= value && value < (S::ONE << ub));
            let raw = if value.is_negative() {
                (1u64 << ub) | (u_to_u64(value.as_negative(bits)) & mask64(ub))
            } else {
                u_to_u64(value.as_non_negative()) & mask64(ub)
            };
            self.push(0, u64::from(bits), raw);
            if !fits {
                self.failed = true;
                if self.strict {
                    return Err(invalid());
                }
            }
            Ok(())
        } else {
            Err(invalid())
        }
    }

    fn write_from<V>(&mut self, value: V) -> io::Result<()>
    where
        V: Primitive,
    {
        let buf = value.to_be_bytes();
        for b in buf.as_ref().iter() {
            self.push(0, 8, u64::from(*b));
        }
        Ok(())
    }

    fn write_as_from<F, V>(&mut self, value: V) -> io::Result<()>
    where
        F: Endianness,
        V: Primitive,
    {
        let buf = if is_little_endian::<F>() {
            value.to_le_bytes()
        } else {
            value.to_be_bytes()
        };
        for b in buf.as_ref().iter() {
            self.push(0, 8, u64::from(*b));
        }
        Ok(())
    }

    fn pad(&mut self, bits: u32) -> io::Result<()> {
        self.push(0, u64::from(bits), 0);
        Ok(())
    }

    fn write_unary<const STOP_BIT: u8>(&mut self, value: u32) -> io::Result<()> {
        self.push(if STOP_BIT == 0 { 1 } else { 2 }, u64::from(value), 0);
        Ok(())
    }

    #[inline]
    fn byte_aligned(&self) -> bool {
        self.wpos % 8 == 0
    }
}

impl<const N: usize> BitRead for TokFifo<N> {
    fn read_unsigned_counted<const MAX: u32, U>(&mut self, bits: BitCount<MAX>) -> io::Result<U>
    where
        U: UnsignedInteger,
    {
        let bits: u32 = bits.into();
        if MAX <= U::BITS_SIZE || bits <= U::BITS_SIZE {
            self.take(bits).map(u_from_u64::<U>)
        } else {
            Err(invalid())
        }
    }

    fn read_signed_counted<const MAX: u32, I>(
        &mut self,
        bits: impl TryInto<SignedBitCount<MAX>>,
    ) -> io::Result<I>
    where
        I: SignedInteger,
    {
        let count: SignedBitCount<MAX> = bits.try_into().map_err(|_| invalid())?;
        let bits: u32 = count.into();
        if MAX <= I::BITS_SIZE || bits <= I::BITS_SIZE {
            let raw = self.take(bits)?;
            let negative = (raw >> (bits - 1)) & 1 == 1;
            let unsigned: I::Unsigned = u_from_u64(raw & mask64(bits - 1));
            Ok(if negative {
                unsigned.as_negative(bits)
            } else {
                unsigned.as_non_negative()
            })
        } else {
            Err(invalid())
        }
    }

    fn read_to<V>(&mut self) -> io::Result<V>
    where
        V: Primitive,
    {
        let mut buf = V::buffer();
        for b in buf.as_mut().iter_mut() {
            *b = self.take(8)? as u8;
        }
        Ok(V::from_be_bytes(buf))
    }

    fn read_as_to<F, V>(&mut self) -> io::Result<V>
    where
        F: Endianness,
        V: Primitive,
    {
        let mut buf = V::buffer();
        for b in buf.as_mut().iter_mut() {
            *b = self.take(8)? as u8;
        }
        Ok(if is_little_endian::<F>() {
            V::from_le_bytes(buf)
        } else {
            V::from_be_bytes(buf)
        })
    }

    fn skip(&mut self, bits: u32) -> io::Result<()> {
        if self.split {
            return self.take_split(u64::from(bits)).map(|_| ());
        }
        if self.exact {
            return self.take_exact(0, u64::from(bits)).map(|_| ());
        }
        let mut need = u64::from(bits);
        let mut guard = 0;
        while need > 0 {
            kani::assert(guard < 10, "TokFifo: skip spans more than 9 fields");
            guard += 1;
            if self.rd >= self.len {
                return Err(eof());
            }
            let t = self.tok(self.rd);
            let total = if t.kind == 0 { t.bits } else { t.bits + 1 };
            let avail = total - self.used;
            if need >= avail {
                need -= avail;
                self.rd += 1;
                self.used = 0;
            } else {
                self.used += need;
                need = 0;
            }
        }
        self.rpos += u64::from(bits);
        Ok(())
    }

    fn read_unary<const STOP_BIT: u8>(&mut self) -> io::Result<u32> {
        if self.rd >= self.len {
            return Err(eof());
        }
        let want: u8 = if STOP_BIT == 0 { 1 } else { 2 };
        if self.exact || self.split {
            let i = self.rd;
            self.rd = i + 1;
            kani::assert(
                self.kinds[i] == want,
                "TokFifo granularity: unary read does not coincide with a written unary run",
            );
            self.rpos += self.widths[i] + 1;
            return Ok(self.widths[i] as u32);
        }
        let t = self.tok(self.rd);
        if t.kind == want && self.used == 0 {
            self.rd += 1;
            self.rpos += t.bits + 1;
            Ok(t.bits as u32)
        } else {
            // bit by bit (bounded: a fixed field is at most 64 bits wide here)
            let mut n: u32 = 0;
            loop {
                kani::assert(n <= 64, "TokFifo: unary run read across more than 64 fixed bits");
                let b = self.take(1)?;
                if b == u64::from(STOP_BIT) {
                    return Ok(n);
                }
                n += 1;
            }
        }
    }

    #[inline]
    fn byte_aligned(&self) -> bool {
        self.rpos % 8 == 0
    }

    #[inline]
    fn byte_align(&mut self) {
        let extra = (8 - self.rpos % 8) % 8;
        if extra != 0 {
            let _ = BitRead::skip(self, extra as u32);
        }
    }
}

// ---------------------------------------------------------------------------
// Cross-module access: the harness modules are private children of the source
// modules, so one cannot name another's private functions.  Each harness
// module implements its trait for `Hooks`; trait impls are crate-global.
// ---------------------------------------------------------------------------

pub struct Hooks;

/// private functions of src/decode.rs, re-exported by k_decode.rs
pub trait DecodeHooks {
    fn read_residuals_i32<R: BitRead>(r: &mut R, order: usize, res: &mut [i32]) -> Result<(), crate::Error>;
    fn read_subframe_i32<R: BitRead>(r: &mut R, bps: u32, ch: &mut [i32]) -> Result<(), crate::Error>;
    fn read_subframe_i64<R: BitRead>(r: &mut R, bps: u32, ch: &mut [i64]) -> Result<(), crate::Error>;
    fn predict_i32(coefficients: &[i64], shift: u32, ch: &mut [i32]);
    fn read_subframes<R: BitRead>(
        r: R,
        header: &crate::stream::FrameHeader,
        buf: &mut crate::audio::Frame,
    ) -> Result<(), crate::Error>;
}

/// bit-serial CRC, MSB first, zero initial value, no final xor: the textbook
/// shift register for a polynomial of the given width (independent of src/crc.rs)
pub fn ref_crc_bits(poly: u32, width: u32, data: &[u8], len: usize) -> u32 {
    let mask = if width == 32 { u32::MAX } else { (1u32 << width) - 1 };
    let mut reg: u32 = 0;
    let mut i = 0;
    while i < data.len() {
        if i < len {
            let mut bit = 0;
            while bit < 8 {
                let inbit = ((data[i] >> (7 - bit)) & 1) as u32;
                let fb = ((reg >> (width - 1)) & 1) ^ inbit;
                reg = (reg << 1) & mask;
                if fb == 1 {
                    reg ^= poly & mask;
                }
                bit += 1;
            }
        }
        i += 1;
    }
    reg
}
