// Shared verification environment (compiled only under cfg(kani)).
//
// Everything here implements traits the crate is *already generic over*
// (`bitstream_io::BitRead`, `bitstream_io::BitWrite`, `std::io::{Read,Write,Seek,BufRead}`)
// so that harnesses can drive the real functions of the crate with
// solver-chosen environments.  Each type's contract is stated next to it: the
// contract is part of every claim that uses the type.



use bitstream_io::{
    BitCount, BitRead, BitWrite, Endianness, Primitive, SignedBitCount, SignedInteger,
    UnsignedInteger,
};
use std::io;

// ---------------------------------------------------------------------------
// integer plumbing (bitstream-io's numeric traits are deliberately minimal)
// ---------------------------------------------------------------------------

/// builds any `UnsignedInteger` from the low bits of a u64 (loop-free)
#[inline]
pub fn u_from_u64<U: UnsignedInteger>(v: u64) -> U {
    let b = v.to_le_bytes();
    let mut out = U::from_u8(b[0]);
    out |= U::from_u8(b[1]).checked_shl(8).unwrap_or(U::ZERO);
    out |= U::from_u8(b[2]).checked_shl(16).unwrap_or(U::ZERO);
    out |= U::from_u8(b[3]).checked_shl(24).unwrap_or(U::ZERO);
    out |= U::from_u8(b[4]).checked_shl(32).unwrap_or(U::ZERO);
    out |= U::from_u8(b[5]).checked_shl(40).unwrap_or(U::ZERO);
    out |= U::from_u8(b[6]).checked_shl(48).unwrap_or(U::ZERO);
    out |= U::from_u8(b[7]).checked_shl(56).unwrap_or(U::ZERO);
    out
}

/// low 64 bits of any `UnsignedInteger` (loop-free)
#[inline]
pub fn u_to_u64<U: UnsignedInteger>(v: U) -> u64 {
    let byte = |k: u32| -> u64 {
        match v.checked_shr(8 * k) {
            Some(x) => u64::from(x.to_u8()),
            None => 0,
        }
    };
    byte(0)
        | (byte(1) << 8)
        | (byte(2) << 16)
        | (byte(3) << 24)
        | (byte(4) << 32)
        | (byte(5) << 40)
        | (byte(6) << 48)
        | (byte(7) << 56)
}

#[inline]
pub fn mask64(bits: u32) -> u64 {
    if bits >= 64 { u64::MAX } else { (1u64 << bits) - 1 }
}

#[inline]
fn eof() -> io::Error {
    io::Error::from(io::ErrorKind::UnexpectedEof)
}

#[inline]
fn invalid() -> io::Error {
    io::Error::from(io::ErrorKind::InvalidInput)
}

// ---------------------------------------------------------------------------
// ValueSource: where a model bit reader gets its field values from
// ---------------------------------------------------------------------------

/// A source of field values for [`ModelBits`].
pub trait ValueSource {
    /// next raw 64-bit value (masked by the caller), or `None` for end of data
    fn next(&mut self) -> Option<u64>;
    /// arbitrary byte for whole-`Primitive` reads
    fn next_byte(&mut self) -> Option<u8> {
        self.next().map(|v| v as u8)
    }
}

/// Fully nondeterministic source: every read returns an arbitrary value and
/// may instead report end of data (when `may_fail`).  "For all behaviours of
/// this source" = "for all byte strings" because FLAC frame parsing is
/// strictly sequential.
pub struct AnySource {
    pub may_fail: bool,
}

impl ValueSource for AnySource {
    #[inline]
    fn next(&mut self) -> Option<u64> {
        if self.may_fail && kani::any::<bool>() {
            None
        } else {
            Some(kani::any())
        }
    }
}

/// Scripted source: the i-th primitive read returns `vals[i]` (masked to the
/// requested width by the reader).  Reading past `eof_at` reports end of
/// data.  Two consumers given equal scripts see the same stream, which is
/// what the differential harnesses need; a counterexample is just `vals`.
pub struct Script<'a> {
    pub vals: &'a [u64],
    pub i: usize,
    pub eof_at: usize,
    /// tripwire: index of the first read that must never happen (a harness
    /// that pins an illegal field at slot k sets this to k+1).  A read at or
    /// beyond it is reported as a failed check under its real path condition;
    /// the path is then cut so that symbolic execution does not walk the rest
    /// of the parser along paths that have already returned an error.
    pub trip_at: usize,
}

impl<'a> Script<'a> {
    pub fn new(vals: &'a [u64]) -> Self {
        Self {
            vals,
            i: 0,
            eof_at: vals.len(),
            trip_at: usize::MAX,
        }
    }
}

impl ValueSource for Script<'_> {
    #[inline]
    fn next(&mut self) -> Option<u64> {
        // the index advances on every call, served or not, so that it stays a
        // compile-time constant along every path (a symbolic index would make
        // the pinned structural fields of a script symbolic again)
        let k = self.i;
        self.i = k + 1;
        if k >= self.trip_at {
            kani::assert(false, "stream read past the point where the input had to be rejected");
            kani::assume(false);
        }
        if k < self.vals.len() && k < self.eof_at {
            Some(self.vals[k])
        } else {
            None
        }
    }
}

// ---------------------------------------------------------------------------
// ModelBits: BitRead over a ValueSource
// ---------------------------------------------------------------------------

/// A `BitRead` whose fields come from a [`ValueSource`].
///
/// Contract (mirrors `bitstream_io::BitReader`):
/// * an unsigned read of `n` bits returns a value `< 2^n`, or `InvalidInput`
///   if `n` exceeds the output type;
/// * a signed read of `n` bits returns a value in `[-2^(n-1), 2^(n-1))`;
/// * `read_unary` returns a count `<= unary_mask` (a `2^k-1` mask: the bound on
///   unary run length is stated by each harness);
/// * any read may fail with `UnexpectedEof` when the source says so;
/// * the bit position advances by exactly the bits consumed (unary: count+1).
pub struct ModelBits<S> {
    pub src: S,
    /// total bits consumed
    pub pos: u64,
    /// number of primitive reads served
    pub reads: u32,
    /// mask applied to unary counts (must be 2^k - 1)
    pub unary_mask: u32,
}

impl<S: ValueSource> ModelBits<S> {
    pub fn new(src: S, unary_mask: u32) -> Self {
        Self {
            src,
            pos: 0,
            reads: 0,
            unary_mask,
        }
    }

    #[inline]
    fn take(&mut self, bits: u32) -> io::Result<u64> {
        match self.src.next() {
            Some(v) => {
                self.pos += u64::from(bits);
                self.reads += 1;
                Ok(v & mask64(bits))
            }
            None => Err(eof()),
        }
    }
}

pub type SymBits = ModelBits<AnySource>;

impl SymBits {
    /// arbitrary stream; every read may hit end of data
    pub fn arbitrary(unary_mask: u32) -> Self {
        ModelBits::new(AnySource { may_fail: true }, unary_mask)
    }
    /// arbitrary stream that never ends
    pub fn endless(unary_mask: u32) -> Self {
        ModelBits::new(AnySource { may_fail: false }, unary_mask)
    }
}

impl<S: ValueSource> BitRead for ModelBits<S> {
    fn read_unsigned_counted<const MAX: u32, U>(&mut self, bits: BitCount<MAX>) -> io::Result<U>
    where
        U: UnsignedInteger,
    {
        let bits: u32 = bits.into();
        if MAX <= U::BITS_SIZE || bits <= U::BITS_SIZE {
            self.take(bits).map(u_from_u64::<U>)
        } else {
            Err(invalid())
        }
    }

    fn read_signed_counted<const MAX: u32, I>(
        &mut self,
        bits: impl TryInto<SignedBitCount<MAX>>,
    ) -> io::Result<I>
    where
        I: SignedInteger,
    {
        let count: SignedBitCount<MAX> = bits.try_into().map_err(|_| invalid())?;
        let bits: u32 = count.into();
        if MAX <= I::BITS_SIZE || bits <= I::BITS_SIZE {
            // one field: sign bit followed by bits-1 magnitude bits
            let raw = self.take(bits)?;
            let negative = (raw >> (bits - 1)) & 1 == 1;
            let unsigned: I::Unsigned = u_from_u64(raw & mask64(bits - 1));
            Ok(if negative {
                unsigned.as_negative(bits)
            } else {
                unsigned.as_non_negative()
            })
        } else {
            Err(invalid())
        }
    }

    fn read_to<V>(&mut self) -> io::Result<V>
    where
        V: Primitive,
    {
        let mut buf = V::buffer();
        for b in buf.as_mut().iter_mut() {
            *b = self.src.next_byte().ok_or_else(eof)?;
            self.pos += 8;
        }
        Ok(V::from_be_bytes(buf))
    }

    fn read_as_to<F, V>(&mut self) -> io::Result<V>
    where
        F: Endianness,
        V: Primitive,
    {
        // byte order is irrelevant for an arbitrary value
        self.read_to::<V>()
    }

    fn skip(&mut self, bits: u32) -> io::Result<()> {
        match self.src.next() {
            Some(_) => {
                self.pos += u64::from(bits);
                Ok(())
            }
            None => Err(eof()),
        }
    }

    fn read_unary<const STOP_BIT: u8>(&mut self) -> io::Result<u32> {
        match self.src.next() {
            Some(v) => {
                let n = (v as u32) & self.unary_mask;
                self.pos += u64::from(n) + 1;
                self.reads += 1;
                Ok(n)
            }
            None => Err(eof()),
        }
    }

    #[inline]
    fn byte_aligned(&self) -> bool {
        self.pos % 8 == 0
    }

    #[inline]
    fn byte_align(&mut self) {
        self.pos = (self.pos + 7) / 8 * 8;
    }
}

// ---------------------------------------------------------------------------
// Reference model (oracle): one FLAC subframe decoded directly from RFC 9639
// section 9.2, in i128 arithmetic, sharing no code with the crate.  It reads
// through the same `ModelBits<Script>` so that it sees the same field values
// as the code under test.
// ---------------------------------------------------------------------------

pub mod refmodel {
    use super::{ModelBits, Script};
    use bitstream_io::BitRead;

    pub type R<'a> = ModelBits<Script<'a>>;

    /// verdict of the reference decoder
    #[derive(Clone, Copy, PartialEq, Eq)]
    pub enum Verdict {
        /// the stream is a valid subframe; the samples are in `out`
        Valid,
        /// the stream violates a MUST of the RFC
        Invalid,
        /// the RFC does not settle it / outside the model (e.g. value does not fit)
        Unspecified,
    }

    #[inline]
    fn u(r: &mut R, bits: u32) -> u128 {
        // the script never ends inside a harness that uses the oracle
        r.read_var::<u64>(bits).unwrap() as u128
    }

    #[inline]
    fn s(r: &mut R, bits: u32) -> i128 {
        // two's complement, most significant bit first
        let raw = u(r, bits);
        if bits == 0 {
            0
        } else if (raw >> (bits - 1)) & 1 == 1 {
            raw as i128 - (1i128 << bits)
        } else {
            raw as i128
        }
    }

    #[inline]
    pub fn fits(v: i128, bits: u32) -> bool {
        v >= -(1i128 << (bits - 1)) && v < (1i128 << (bits - 1))
    }

    /// residual section (RFC 9639 9.2.7) for a block of `n` samples with
    /// predictor order `order`; writes residuals to out[order..n]
    pub fn residuals(r: &mut R, order: usize, n: usize, out: &mut [i128]) -> Verdict {
        let method = u(r, 2);
        if method > 1 {
            return Verdict::Invalid;
        }
        let pbits: u32 = if method == 0 { 4 } else { 5 };
        let po = u(r, 4) as u32;
        let pc: usize = 1usize << po;
        if n % pc != 0 {
            return Verdict::Invalid;
        }
        let plen = n >> po;
        if plen < order {
            return Verdict::Invalid;
        }
        if plen == order {
            // an empty first partition: the RFC wording ("larger than") rules
            // it out, decoders differ; the oracle takes no position
            return Verdict::Unspecified;
        }
        let mut verdict = Verdict::Valid;
        let mut idx = order;
        let mut p = 0;
        while p < pc {
            let count = if p == 0 { plen - order } else { plen };
            let param = u(r, pbits) as u32;
            if param == (1 << pbits) - 1 {
                let w = u(r, 5) as u32;
                let mut k = 0;
                while k < count {
                    out[idx] = if w == 0 { 0 } else { s(r, w) };
                    idx += 1;
                    k += 1;
                }
            } else {
                let mut k = 0;
                while k < count {
                    let q = r.read_unary::<1>().unwrap() as u128;
                    let lsb = u(r, param);
                    let folded = (q << param) | lsb;
                    let v: i128 = if folded & 1 == 1 {
                        -((folded >> 1) as i128) - 1
                    } else {
                        (folded >> 1) as i128
                    };
                    // residuals MUST fit a 32-bit signed integer and MUST NOT
                    // be the most negative one
                    if !(v > -(1i128 << 31) && v < (1i128 << 31)) {
                        verdict = Verdict::Invalid;
                    }
                    out[idx] = v;
                    idx += 1;
                    k += 1;
                }
            }
            p += 1;
        }
        verdict
    }

    /// one subframe of `n` samples at `bps` bits per sample (1..=33)
    pub fn subframe(r: &mut R, bps: u32, n: usize, out: &mut [i128]) -> Verdict {
        if u(r, 1) != 0 {
            return Verdict::Invalid;
        }
        let t = u(r, 6) as u32;
        let wasted = if u(r, 1) == 1 {
            r.read_unary::<1>().unwrap() + 1
        } else {
            0
        };
        let kind_ok = t <= 1 || (8..=12).contains(&t) || t >= 32;
        if !kind_ok {
            return Verdict::Invalid;
        }
        if wasted >= bps {
            return Verdict::Invalid;
        }
        let eb = bps - wasted;
        let mut verdict = Verdict::Valid;
        if t == 0 {
            let v = s(r, eb);
            let mut i = 0;
            while i < n {
                out[i] = v;
                i += 1;
            }
        } else if t == 1 {
            let mut i = 0;
            while i < n {
                out[i] = s(r, eb);
                i += 1;
            }
        } else if t < 32 {
            let order = (t - 8) as usize;
            if order > n {
                return Verdict::Invalid;
            }
            let mut i = 0;
            while i < order {
                out[i] = s(r, eb);
                i += 1;
            }
            verdict = residuals(r, order, n, out);
            if verdict == Verdict::Unspecified {
                return verdict;
            }
            let mut i = order;
            while i < n {
                let p: i128 = match order {
                    0 => 0,
                    1 => out[i - 1],
                    2 => 2 * out[i - 1] - out[i - 2],
                    3 => 3 * out[i - 1] - 3 * out[i - 2] + out[i - 3],
                    _ => 4 * out[i - 1] - 6 * out[i - 2] + 4 * out[i - 3] - out[i - 4],
                };
                out[i] += p;
                i += 1;
            }
        } else {
            let order = (t - 31) as usize;
            if order > n {
                return Verdict::Invalid;
            }
            let mut i = 0;
            while i < order {
                out[i] = s(r, eb);
                i += 1;
            }
            let prec = u(r, 4) as u32;
            if prec == 15 {
                return Verdict::Invalid;
            }
            let prec = prec + 1;
            let shift = s(r, 5);
            if shift < 0 {
                return Verdict::Invalid;
            }
            let mut c = [0i128; 32];
            let mut i = 0;
            while i < order {
                c[i] = s(r, prec);
                i += 1;
            }
            verdict = residuals(r, order, n, out);
            if verdict == Verdict::Unspecified {
                return verdict;
            }
            let mut i = order;
            while i < n {
                // coefficient (<= 15 bits) x sample (<= 34 bits here) fits i64;
                // a history value outside 40 bits means an earlier sample already
                // left the legal range: the oracle then takes no position
                let mut acc: i64 = 0;
                let mut j = 0;
                while j < order {
                    let h = out[i - 1 - j];
                    if !fits(h, 40) {
                        return Verdict::Unspecified;
                    }
                    acc += (c[j] as i64) * (h as i64);
                    j += 1;
                }
                // arithmetic shift right == floor division by 2^shift
                out[i] += (acc >> (shift as u32)) as i128;
                i += 1;
            }
        }
        // samples before re-adding the wasted bits MUST fit the effective width
        let mut i = 0;
        while i < n {
            if !fits(out[i], eb) {
                if verdict == Verdict::Valid {
                    verdict = Verdict::Unspecified;
                }
            }
            out[i] <<= wasted;
            i += 1;
        }
        verdict
    }
}
