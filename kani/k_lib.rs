// Harnesses over items reachable from the crate root: crc, Counter, byteorder, audio::Frame
use crate::crc::{Checksum, Crc16, Crc8, CrcReader};
use crate::verif_env::*;

/// bit-serial CRC, MSB first, zero initial value, no final xor:
/// the textbook shift register for a polynomial of the given width
fn ref_crc(poly: u32, width: u32, data: &[u8]) -> u32 {
    let top = 1u32 << (width - 1);
    let mask = if width == 32 { u32::MAX } else { (1u32 << width) - 1 };
    let mut reg: u32 = 0;
    for byte in data {
        let mut bit = 0;
        while bit < 8 {
            let inbit = ((*byte >> (7 - bit)) & 1) as u32;
            let fb = ((reg >> (width - 1)) & 1) ^ inbit;
            reg = (reg << 1) & mask;
            if fb == 1 {
                reg ^= poly & mask;
            }
            bit += 1;
        }
    }
    let _ = top;
    reg
}

// @harness prop=C02,C05 tier=quick expect=pass timeout=300
// @units crc::Crc8::update
// @bound every 2-byte message; a 1-byte prefix reaches each of the 256 register states, so this decides update() for every (state, byte)
// @oracle table-driven CRC-8 == bit-serial shift register for x^8 + x^2 + x + 1, MSB first, zero init
#[kani::proof]
#[kani::unwind(9)]
fn c02_crc8_matches_polynomial() {
    let m: [u8; 2] = kani::any();
    let c: u8 = Crc8::default().update(m[0]).update(m[1]).into();
    assert!(u32::from(c) == ref_crc(0x07, 8, &m));
    // every register state is reached after one byte
    let s: u8 = kani::any();
    let s1: u8 = Crc8::default().update(s).into();
    kani::cover!(s1 == 0xA5);
}

// @harness prop=C02,C05 tier=quick expect=pass timeout=600
// @units crc::Crc16::update
// @bound every 3-byte message; a 2-byte prefix reaches each of the 65536 register states, so this decides update() for every (state, byte)
// @oracle table-driven CRC-16 == bit-serial shift register for x^16 + x^15 + x^2 + 1 (0x8005), MSB first, zero init
#[kani::proof]
#[kani::unwind(9)]
fn c02_crc16_matches_polynomial() {
    let m: [u8; 3] = kani::any();
    let c: u16 = Crc16::default().update(m[0]).update(m[1]).update(m[2]).into();
    assert!(u32::from(c) == ref_crc(0x8005, 16, &m));
}

// @harness prop=C05 tier=quick expect=pass timeout=600
// @units crc::Crc16::update crc::Crc16::valid
// @bound frames of exactly 12 bytes (any content), error pattern = any non-zero burst confined to 16 consecutive bits at any byte-aligned-or-not position (covers every single-bit flip)
// @oracle the CRC-16 register after the damaged frame differs from the register after the original: damage that keeps the byte span is never silently accepted
#[kani::proof]
#[kani::unwind(14)]
fn c05_crc16_detects_bursts_12() {
    let m: [u8; 12] = kani::any();
    let burst: u16 = kani::any();
    kani::assume(burst != 0);
    let pos: usize = kani::any(); // bit offset of the burst window
    kani::assume(pos <= 12 * 8 - 16);
    let mut d = m;
    // xor the 16-bit window in, MSB first, possibly straddling three bytes
    let byte = pos / 8;
    let sh = (pos % 8) as u32;
    let w: u32 = (u32::from(burst)) << (8 - sh); // 24-bit window
    d[byte] ^= (w >> 16) as u8;
    d[byte + 1] ^= (w >> 8) as u8;
    if byte + 2 < 12 {
        d[byte + 2] ^= w as u8;
    } else {
        kani::assume(w as u8 == 0);
    }
    let mut a = Crc16::default();
    let mut b = Crc16::default();
    let mut i = 0;
    while i < 12 {
        a = a.update(m[i]);
        b = b.update(d[i]);
        i += 1;
    }
    let (a, b): (u16, u16) = (a.into(), b.into());
    assert!(a != b);
}

// @harness prop=C05 tier=quick expect=pass timeout=600
// @units crc::Crc8::update crc::Crc8::valid
// @bound headers of exactly 8 bytes (any content), any non-zero burst confined to 8 consecutive bits (covers every single-bit flip)
// @oracle the CRC-8 register changes
#[kani::proof]
#[kani::unwind(10)]
fn c05_crc8_detects_bursts_8() {
    let m: [u8; 8] = kani::any();
    let burst: u8 = kani::any();
    kani::assume(burst != 0);
    let pos: usize = kani::any();
    kani::assume(pos <= 8 * 8 - 8);
    let mut d = m;
    let byte = pos / 8;
    let sh = (pos % 8) as u32;
    let w: u16 = (u16::from(burst)) << (8 - sh);
    d[byte] ^= (w >> 8) as u8;
    if byte + 1 < 8 {
        d[byte + 1] ^= w as u8;
    } else {
        kani::assume(w as u8 == 0);
    }
    let mut a = Crc8::default();
    let mut b = Crc8::default();
    let mut i = 0;
    while i < 8 {
        a = a.update(m[i]);
        b = b.update(d[i]);
        i += 1;
    }
    let (a, b): (u8, u8) = (a.into(), b.into());
    assert!(a != b);
}

/// A `Read` that hands out its bytes in arbitrary non-empty fragments
/// (contract of std::io::Read: 0 < n <= buf.len() unless at end of data)
pub struct ChunkRead<const N: usize> {
    pub data: [u8; N],
    pub pos: usize,
    pub calls: usize,
}

impl<const N: usize> std::io::Read for ChunkRead<N> {
    fn read(&mut self, buf: &mut [u8]) -> std::io::Result<usize> {
        self.calls += 1;
        let left = N - self.pos;
        if left == 0 || buf.is_empty() {
            return Ok(0);
        }
        let max = if buf.len() < left { buf.len() } else { left };
        let n: usize = kani::any();
        kani::assume(n >= 1 && n <= max);
        let mut i = 0;
        while i < n {
            buf[i] = self.data[self.pos + i];
            i += 1;
        }
        self.pos += n;
        Ok(n)
    }
}

// @harness prop=C07 tier=quick expect=pass timeout=600
// @units crc::CrcReader::read Counter::read
// @bound 4 source bytes, delivered in any fragmentation (every read returns an arbitrary non-empty prefix of what is left, into a caller buffer of arbitrary size 1..=4), at most 6 read calls
// @oracle bytes delivered == source bytes in order; checksum == CRC-16 of exactly the delivered bytes; Counter.count == number delivered; all independent of the fragmentation
#[kani::proof]
#[kani::unwind(10)]
fn c07_crc_reader_counter_fragmentation() {
    use std::io::Read;
    let data: [u8; 4] = kani::any();
    let src = ChunkRead::<4> { data, pos: 0, calls: 0 };
    let mut counter = crate::Counter::new(src);
    let mut got = [0u8; 4];
    let mut total = 0usize;
    {
        let mut crc: CrcReader<_, Crc16> = CrcReader::new(&mut counter);
        let mut rounds = 0;
        while rounds < 6 && total < 4 {
            let want: usize = kani::any();
            kani::assume(want >= 1 && want <= 4 - total);
            let mut tmp = [0u8; 4];
            let n = crc.read(&mut tmp[..want]).unwrap();
            assert!(n >= 1 && n <= want);
            let mut i = 0;
            while i < n {
                got[total + i] = tmp[i];
                i += 1;
            }
            total += n;
            rounds += 1;
        }
        let sum: u16 = crc.into_checksum().into();
        assert!(u32::from(sum) == ref_crc(0x8005, 16, &data[..total]));
    }
    assert!(counter.count == total as u64);
    let mut i = 0;
    while i < total {
        assert!(got[i] == data[i]);
        i += 1;
    }
    kani::cover!(total == 4 && counter.stream().calls == 4);
    kani::cover!(total == 4 && counter.stream().calls == 1);
}

// ===========================================================================
// C07/C08: sample <-> byte serialisation in both byte orders, all values
// ===========================================================================

// @harness prop=C07,C08 tier=quick expect=pass timeout=300
// @units byteorder::LittleEndian::{i8,i16,i24,i32}_to_bytes byteorder::LittleEndian::bytes_to_{i8,i16,i24,i32} byteorder::BigEndian::* byteorder::bytes_to_le byteorder::bytes_to_be
// @bound every sample value at every byte width (8, 16, 24 bit within range, 32 bit), both byte orders
// @oracle bytes are the two's complement of the sample at that width in that order (independent shift/mask formula); bytes -> sample inverts it (sign-extended); bytes_to_le/bytes_to_be reverse each sample's bytes or leave them alone
#[kani::proof]
#[kani::unwind(6)]
fn c07_byteorder_all_values() {
    use crate::byteorder::{BigEndian as BE, Endianness as En, LittleEndian as LE};
    let v: i32 = kani::any();
    let u = v as u32;
    // 32 bit
    let le = <LE as En>::i32_to_bytes(v);
    let be = <BE as En>::i32_to_bytes(v);
    assert!(le[0] == u as u8 && le[1] == (u >> 8) as u8 && le[2] == (u >> 16) as u8 && le[3] == (u >> 24) as u8);
    assert!(be[3] == le[0] && be[2] == le[1] && be[1] == le[2] && be[0] == le[3]);
    assert!(<LE as En>::bytes_to_i32(le) == v && <BE as En>::bytes_to_i32(be) == v);
    // 24 bit
    if v >= -(1 << 23) && v < (1 << 23) {
        let le = <LE as En>::i24_to_bytes(v);
        let be = <BE as En>::i24_to_bytes(v);
        assert!(le[0] == u as u8 && le[1] == (u >> 8) as u8 && le[2] == (u >> 16) as u8);
        assert!(be[2] == le[0] && be[1] == le[1] && be[0] == le[2]);
        assert!(<LE as En>::bytes_to_i24(le) == v && <BE as En>::bytes_to_i24(be) == v);
    }
    // 16 bit
    let s = v as i16;
    let le = <LE as En>::i16_to_bytes(s);
    let be = <BE as En>::i16_to_bytes(s);
    assert!(le[0] == u as u8 && le[1] == (u >> 8) as u8 && be[0] == le[1] && be[1] == le[0]);
    assert!(<LE as En>::bytes_to_i16(le) == s && <BE as En>::bytes_to_i16(be) == s);
    // 8 bit
    let b = v as i8;
    assert!(<LE as En>::i8_to_bytes(b)[0] == u as u8 && <BE as En>::i8_to_bytes(b)[0] == u as u8);
    assert!(<LE as En>::bytes_to_i8([u as u8]) == b && <BE as En>::bytes_to_i8([u as u8]) == b);
    // in-place conversion of a 2-sample buffer at width 3
    let raw: [u8; 6] = kani::any();
    let mut x = raw;
    <LE as En>::bytes_to_be(&mut x, 3);
    assert!(x[0] == raw[2] && x[1] == raw[1] && x[2] == raw[0] && x[3] == raw[5] && x[5] == raw[3]);
    let mut y = raw;
    <LE as En>::bytes_to_le(&mut y, 3);
    assert!(y[0] == raw[0] && y[5] == raw[5]);
    let mut z = raw;
    <BE as En>::bytes_to_le(&mut z, 3);
    assert!(z[0] == raw[2] && z[2] == raw[0] && z[3] == raw[5]);
}
