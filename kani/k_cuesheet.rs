// harnesses for this module
