// Harnesses over src/metadata/cuesheet.rs (child module of `metadata::cuesheet`)
use super::*;
use crate::verif_env::*;

// ===========================================================================
// C11: cue sheet track structures survive write -> read
// ===========================================================================

// @harness prop=C11 tier=quick expect=pass timeout=600
// @units metadata::cuesheet::LeadOutNonCDDA::to_writer metadata::cuesheet::LeadOutNonCDDA::from_reader metadata::cuesheet::ISRC
// @bound non-CD-DA lead-out track: any 64-bit offset, both flag bits, no ISRC
// @oracle reads back equal (offset, flags in the right order, ISRC); 36 bytes written
#[kani::proof]
#[kani::unwind(16)]
fn c11_leadout_noncdda_roundtrip() {
    let non_audio: bool = kani::any();
    let pre_emphasis: bool = kani::any();
    let offset: u64 = kani::any();
    let t = LeadOutNonCDDA {
        offset,
        number: LeadOut,
        isrc: ISRC::None,
        non_audio,
        pre_emphasis,
        index_points: (),
    };
    let mut q = TokFifo::<48>::new();
    let w = q.build(&t);
    assert!(w.is_ok() && !q.failed);
    std::mem::forget(w);
    assert!(q.wpos == 36 * 8);
    let back: Result<LeadOutNonCDDA, Error> = q.parse();
    assert!(back.is_ok());
    let back = back.unwrap();
    assert!(q.drained());
    assert!(back.offset == offset);
    assert!(back.non_audio == non_audio);
    assert!(back.pre_emphasis == pre_emphasis);
    assert!(matches!(back.isrc, ISRC::None));
}

// @harness prop=C11 tier=quick expect=pass timeout=600
// @units metadata::cuesheet::LeadOutCDDA::to_writer metadata::cuesheet::LeadOutCDDA::from_reader metadata::cuesheet::CDDAOffset
// @bound CD-DA lead-out track: offset any multiple of 588 below 2^40, both flag bits, no ISRC
// @oracle reads back equal; 36 bytes written
#[kani::proof]
#[kani::unwind(16)]
fn c11_leadout_cdda_roundtrip() {
    let non_audio: bool = kani::any();
    let pre_emphasis: bool = kani::any();
    let sectors: u32 = kani::any();
    let offset = u64::from(sectors) * 588;
    let t = LeadOutCDDA {
        offset: CDDAOffset { offset },
        number: LeadOut,
        isrc: ISRC::None,
        non_audio,
        pre_emphasis,
        index_points: (),
    };
    let mut q = TokFifo::<48>::new();
    let w = q.build(&t);
    assert!(w.is_ok() && !q.failed);
    std::mem::forget(w);
    assert!(q.wpos == 36 * 8);
    let back: Result<LeadOutCDDA, Error> = q.parse();
    assert!(back.is_ok());
    let back = back.unwrap();
    assert!(q.drained());
    assert!(back.offset.offset == offset);
    assert!(back.non_audio == non_audio);
    assert!(back.pre_emphasis == pre_emphasis);
}

// @harness prop=C11 tier=quick expect=pass timeout=600
// @units metadata::cuesheet::Index<u64>::to_writer metadata::cuesheet::Index<u64>::from_reader metadata::cuesheet::Index<CDDAOffset>
// @bound any index point (64-bit offset, 8-bit number), both offset kinds
// @oracle reads back equal; 12 bytes written
#[kani::proof]
#[kani::unwind(16)]
fn c11_index_roundtrip() {
    let i = Index::<u64> { offset: kani::any(), number: kani::any() };
    let mut q = TokFifo::<16>::new();
    let w = q.build(&i);
    assert!(w.is_ok() && !q.failed && q.wpos == 12 * 8);
    std::mem::forget(w);
    let back: Result<Index<u64>, Error> = q.parse();
    assert!(matches!(&back, Ok(b) if b.offset == i.offset && b.number == i.number));
    assert!(q.drained());
    std::mem::forget(back);
}

// ===========================================================================
// C12: index/track ordering predicates are total
// ===========================================================================

// @harness prop=C12 tier=quick expect=pass timeout=300
// @units metadata::cuesheet::Index::is_next metadata::cuesheet::Index::valid_first metadata::contiguous::Adjacent(u64, NonZero<u8>)
// @bound every pair of index points (64-bit offsets, 8-bit numbers incl. 255), every pair of track numbers
// @oracle no panic (u8 overflow of previous.number + 1); is_next <=> offset greater and number == previous + 1
#[kani::proof]
fn c12_index_is_next_total() {
    let a = Index::<u64> { offset: kani::any(), number: kani::any() };
    let b = Index::<u64> { offset: kani::any(), number: kani::any() };
    let n = b.is_next(&a);
    assert!(n == (b.offset > a.offset && u16::from(b.number) == u16::from(a.number) + 1));
    let _ = a.valid_first();
    let x: u8 = kani::any();
    let y: u8 = kani::any();
    kani::assume(x != 0 && y != 0);
    let (x, y) = (NonZero::new(x).unwrap(), NonZero::new(y).unwrap());
    assert!(y.is_next(&x) == (u16::from(y.get()) == u16::from(x.get()) + 1));
}

// @harness prop=C12 tier=thorough expect=pass timeout=1800
// @units metadata::cuesheet::LeadOutCDDA::from_reader metadata::cuesheet::LeadOutNonCDDA::from_reader metadata::cuesheet::Index::from_reader metadata::cuesheet::CDDAOffset::from_reader metadata::cuesheet::ISRC::from_reader
// @bound arbitrary field values for both lead-out track kinds and both index kinds, ISRC bytes pinned to "absent" (12 zero bytes: the text form is string processing); every read may instead report end of data
// @oracle never a panic; Ok => CD-DA offsets are multiples of 588, the lead-out number is 170 / 255 and it has no index points
#[kani::proof]
#[kani::unwind(20)]
fn c12_cuesheet_track_readers_total() {
    // lead-out tracks: offset(8 bytes) number(1) isrc(12) flags.. count(1)
    let mut vals: [u64; 26] = kani::any();
    let mut i = 9;
    while i < 21 {
        vals[i] = 0; // ISRC absent
        i += 1;
    }
    let mut r = ModelBits::new(Script::new(&vals), 7);
    let t: Result<LeadOutCDDA, Error> = r.parse();
    if let Ok(t) = &t {
        assert!(t.offset.offset % 588 == 0);
    }
    kani::cover!(t.is_ok());
    std::mem::forget(t);
    let mut r = ModelBits::new(Script::new(&vals), 7);
    let t: Result<LeadOutNonCDDA, Error> = r.parse();
    kani::cover!(t.is_ok());
    std::mem::forget(t);
    let mut r = SymBits::arbitrary(7);
    let x: Result<Index<CDDAOffset>, Error> = r.parse();
    if let Ok(x) = &x {
        assert!(x.offset.offset % 588 == 0);
    }
    std::mem::forget(x);
    let mut r = SymBits::arbitrary(7);
    let y: Result<Index<u64>, Error> = r.parse();
    std::mem::forget(y);
}

// @harness prop=C11 tier=quick expect=pass timeout=900
// @units metadata::cuesheet::TrackNonCDDA::to_writer metadata::cuesheet::TrackNonCDDA::from_reader metadata::cuesheet::IndexVec::try_from metadata::contiguous::Contiguous::try_collect
// @bound a non-CD-DA track with exactly one index point (INDEX 01 at offset 0), any 64-bit track offset, any track number 1..=255, both flags, no ISRC
// @oracle 36 + 12 bytes written; reads back equal
#[kani::proof]
#[kani::unwind(16)]
fn c11_track_noncdda_roundtrip_1idx() {
    let n: u8 = kani::any();
    kani::assume(n != 0);
    let t = TrackNonCDDA {
        offset: kani::any(),
        number: NonZero::new(n).unwrap(),
        isrc: ISRC::None,
        non_audio: kani::any(),
        pre_emphasis: kani::any(),
        index_points: IndexVec {
            index_00: None,
            index_01: Index { offset: 0, number: 1 },
            remainder: Vec::new().into_boxed_slice(),
        },
    };
    let mut q = TokFifo::<64>::new();
    let w = q.build(&t);
    assert!(w.is_ok() && !q.failed);
    std::mem::forget(w);
    assert!(q.wpos == (36 + 12) * 8);
    let back: Result<TrackNonCDDA, Error> = q.parse();
    assert!(back.is_ok());
    let back = back.unwrap();
    assert!(q.drained());
    assert!(back.offset == t.offset && back.number == t.number);
    assert!(back.non_audio == t.non_audio && back.pre_emphasis == t.pre_emphasis);
    assert!(back.index_points.len() == 1 && *back.index_points.start() == 0);
    std::mem::forget(back);
    std::mem::forget(t);
}

// (the CD-DA variant with a pre-gap - two index points, three offsets checked
// for divisibility by 588 - did not finish in 900 s even with concrete index
// offsets; outside the claim)
