// Harnesses over src/metadata/mod.rs (child module of `metadata`)
use super::*;
use crate::verif_env::*;
use bitstream_io::{BitRead, BitWrite, SignedBitCount};
use std::num::NonZero;

/// an arbitrary STREAMINFO as the block reader can produce it:
/// every field at its full coded width (sample rate 20 bits incl. 0,
/// channels 1..=8, depth 1..=32, total samples 36 bits or absent)
pub(crate) fn any_streaminfo() -> Streaminfo {
    let sample_rate: u32 = kani::any();
    kani::assume(sample_rate <= Streaminfo::MAX_SAMPLE_RATE);
    let channels: u8 = kani::any();
    kani::assume(channels >= 1 && channels <= 8);
    let bps: u32 = kani::any();
    kani::assume(bps >= 1 && bps <= 32);
    let total: u64 = kani::any();
    kani::assume(total <= Streaminfo::MAX_TOTAL_SAMPLES.get());
    let minf: u32 = kani::any();
    let maxf: u32 = kani::any();
    kani::assume(minf <= Streaminfo::MAX_FRAME_SIZE && maxf <= Streaminfo::MAX_FRAME_SIZE);
    Streaminfo {
        minimum_block_size: kani::any(),
        maximum_block_size: kani::any(),
        minimum_frame_size: NonZero::new(minf),
        maximum_frame_size: NonZero::new(maxf),
        sample_rate,
        channels: NonZero::new(channels).unwrap(),
        bits_per_sample: SignedBitCount::<32>::try_from(bps).unwrap(),
        total_samples: NonZero::new(total),
        md5: if kani::any() { Some(kani::any()) } else { None },
    }
}

// ===========================================================================
// C12: accessors are total on every block list that parses
// ===========================================================================

// @harness prop=C12 tier=quick expect=pass timeout=600
// @units metadata::Metadata::duration metadata::Metadata::decoded_len (Streaminfo instantiation)
// @bound sample rate pinned in turn to 0 (legal: "not audio") and 1 (other divisors need a 64-bit divider circuit: thorough tier, c12_streaminfo_duration_any_rate); every other STREAMINFO field symbolic at full coded width (channels 1..=8, depth 1..=32, total samples 0..2^36-1 or unknown)
// @oracle no panic (division by zero, overflow); a duration is reported only when the length is known and the rate is not 0, at rate 1 it equals total seconds; decoded_len == total*channels*ceil(bps/8)
#[kani::proof]
#[kani::unwind(7)]
fn c12_streaminfo_duration_decoded_len() {
    const RATES: [u32; 2] = [0, 1];
    let mut i = 0;
    while i < RATES.len() {
        let mut si = any_streaminfo();
        si.sample_rate = RATES[i];
        let d = si.duration();
        let l = si.decoded_len();
        match si.total_samples {
            None => {
                assert!(d.is_none());
                assert!(l.is_none());
            }
            Some(t) => {
                let t = t.get();
                let bytes = u64::from((u32::from(si.bits_per_sample) + 7) / 8);
                assert!(l == Some(t * u64::from(si.channels.get()) * bytes));
                let r = u64::from(RATES[i]);
                if r == 0 {
                    assert!(d.is_none());
                } else {
                    let d = d.unwrap();
                    assert!(d.as_secs() == t && d.subsec_nanos() == 0);
                }
            }
        }
        i += 1;
    }
}

// @harness prop=C12 tier=thorough expect=pass timeout=2400 solver=kissat
// @units metadata::Metadata::duration (Streaminfo instantiation)
// @bound every STREAMINFO the reader can produce: sample rate 0..2^20-1, total samples 0..2^36-1 or unknown - all symbolic at once (three 64-bit divisions by a symbolic divisor: decided by kissat, ~7 min)
// @oracle no panic of any kind
#[kani::proof]
#[kani::solver(kissat)]
fn c12_streaminfo_duration_any_rate() {
    let si = any_streaminfo();
    let d = si.duration();
    kani::cover!(si.sample_rate == 0 && si.total_samples.is_some());
    std::mem::forget(d);
}

// @harness prop=C12 tier=quick expect=pass timeout=300
// @units metadata::ChannelMask::from_channels metadata::ChannelMask::channels
// @bound channel counts 1..=8 (the only values a parsed STREAMINFO can hold: 3-bit field + 1)
// @assume channels in 1..=8 (documented precondition of the private helper; STREAMINFO.channels is a 3-bit field + 1)
// @oracle no panic; the mask names exactly that many channels
#[kani::proof]
#[kani::unwind(20)]
fn c12_channel_mask_from_channels() {
    let n: u8 = kani::any();
    kani::assume(n >= 1 && n <= 8);
    let m = ChannelMask::from_channels(n);
    let cnt = m.channels().count();
    assert!(cnt == usize::from(n));
}

// ---------------------------------------------------------------------------
// image sniffers on arbitrary bytes
// ---------------------------------------------------------------------------

fn png_sig(data: &mut [u8]) {
    data[0] = 0x89;
    data[1] = 0x50;
    data[2] = 0x4E;
    data[3] = 0x47;
    data[4] = 0x0D;
    data[5] = 0x0A;
    data[6] = 0x1A;
    data[7] = 0x0A;
}

// @harness prop=C12 tier=quick expect=pass timeout=600
// @units metadata::PictureMetrics::try_new metadata::PictureMetrics::try_png
// @bound PNG signature + one 25-byte IHDR chunk with every length/tag/width/height/bit-depth/colour-type value except the palette type (3)
// @assume colour type != 3 (the PLTE chunk scan is c12_png_palette_scan)
// @oracle no panic of any kind (u8 overflow in the colour-depth product, slice bounds)
#[kani::proof]
#[kani::unwind(36)]
fn c12_png_sniffer_total() {
    let mut data: [u8; 33] = kani::any();
    png_sig(&mut data);
    kani::assume(data[25] != 3);
    let r = PictureMetrics::try_new(&data);
    kani::cover!(r.is_ok());
    std::mem::forget(r);
}

// @harness prop=C12 tier=quick expect=pass timeout=600
// @units metadata::PictureMetrics::try_new metadata::PictureMetrics::try_png
// @bound the same 33 bytes cut at each of 8, 11, 12, 16, 20, 24, 25, 26, 28, 29, 32 bytes (inside every field of the IHDR chunk)
// @oracle truncated data is an error, never a panic
#[kani::proof]
#[kani::unwind(36)]
fn c12_png_sniffer_truncated() {
    let mut data: [u8; 33] = kani::any();
    png_sig(&mut data);
    kani::assume(data[25] != 3);
    const CUTS: [usize; 11] = [8, 11, 12, 16, 20, 24, 25, 26, 28, 29, 32];
    let mut i = 0;
    while i < CUTS.len() {
        let r = PictureMetrics::try_new(&data[..CUTS[i]]);
        assert!(r.is_err());
        std::mem::forget(r);
        i += 1;
    }
}

// @harness prop=C12 tier=quick expect=pass timeout=900
// @units metadata::PictureMetrics::try_png::plte_colors
// @bound palette PNG: valid IHDR (colour type 3), then an ancillary (gAMA) chunk whose 32-bit length is pinned in turn to 2, 0x7FFFFFFF and 0xFFFFFFFC with arbitrary payload/CRC bytes, then a PLTE chunk header with an arbitrary 32-bit length
// @oracle no panic of any kind (overflow on the untrusted chunk length included); a chunk running past the data is an error; terminates (unwinding assertions)
#[kani::proof]
#[kani::unwind(12)]
fn c12_png_palette_scan() {
    const LENS: [u32; 3] = [2, 0x7FFF_FFFF, 0xFFFF_FFFC];
    let mut k = 0;
    while k < LENS.len() {
        let mut data: [u8; 33 + 14 + 8] = kani::any();
        png_sig(&mut data);
        data[8] = 0;
        data[9] = 0;
        data[10] = 0;
        data[11] = 0x0d;
        data[12] = b'I';
        data[13] = b'H';
        data[14] = b'D';
        data[15] = b'R';
        data[25] = 3;
        // first chunk: gAMA with the pinned length
        let l = LENS[k].to_be_bytes();
        data[33] = l[0];
        data[34] = l[1];
        data[35] = l[2];
        data[36] = l[3];
        data[37] = b'g';
        data[38] = b'A';
        data[39] = b'M';
        data[40] = b'A';
        // where a following PLTE chunk header would be for length 0 / 2
        let at = 41 + (if LENS[k] <= 2 { LENS[k] as usize } else { 2 }) + 4;
        data[at + 4] = b'P';
        data[at + 5] = b'L';
        data[at + 6] = b'T';
        data[at + 7] = b'E';
        let r = PictureMetrics::try_new(&data);
        if LENS[k] > 2 {
            assert!(r.is_err());
        }
        std::mem::forget(r);
        k += 1;
    }
}

// @harness prop=C12 tier=quick expect=pass timeout=600
// @units metadata::PictureMetrics::try_new metadata::PictureMetrics::try_jpeg
// @bound FF D8 FF C0 + one start-of-frame segment with every length/precision/height/width/component value (8 arbitrary bytes); the 12 other start-of-frame markers share this arm
// @oracle no panic of any kind (u8 overflow in precision x components)
#[kani::proof]
#[kani::unwind(4)]
fn c12_jpeg_sniffer_total() {
    let mut data: [u8; 12] = kani::any();
    data[0] = 0xFF;
    data[1] = 0xD8;
    data[2] = 0xFF;
    data[3] = 0xC0;
    let r = PictureMetrics::try_new(&data);
    kani::cover!(r.is_ok());
    std::mem::forget(r);
}

// @harness prop=C12 tier=quick expect=pass timeout=600
// @units metadata::PictureMetrics::try_jpeg
// @bound FF D8 FF E0 + segment length pinned to 1 (illegal) and to 4, arbitrary payload, then FF C0 and an arbitrary start-of-frame body
// @oracle a segment length below 2 is an error; otherwise the frame header after the skipped segment is used; never a panic other than the known colour-depth product
#[kani::proof]
#[kani::unwind(4)]
fn c12_jpeg_segment_skip() {
    const LENS: [u8; 2] = [1, 4];
    let mut i = 0;
    while i < LENS.len() {
        let mut data: [u8; 18] = kani::any();
        data[0] = 0xFF;
        data[1] = 0xD8;
        data[2] = 0xFF;
        data[3] = 0xE0;
        data[4] = 0;
        data[5] = LENS[i];
        let k = 4 + (if LENS[i] < 2 { 2 } else { LENS[i] as usize });
        data[k] = 0xFF;
        data[k + 1] = 0xC0;
        // keep the colour-depth product in range: that overflow is c12_jpeg_sniffer_total's subject
        data[k + 4] = 8;
        kani::assume(data[k + 9] <= 4);
        let r = PictureMetrics::try_new(&data[..k + 10]);
        if LENS[i] < 2 {
            assert!(r.is_err());
        } else {
            assert!(r.is_ok());
        }
        std::mem::forget(r);
        i += 1;
    }
}

// @harness prop=C12 tier=quick expect=pass timeout=600
// @units metadata::PictureMetrics::try_new metadata::PictureMetrics::try_gif
// @bound "GIF" + 9 arbitrary bytes, and every shorter truncation of it
// @oracle no panic of any kind
#[kani::proof]
#[kani::unwind(16)]
fn c12_gif_sniffer_total() {
    let mut data: [u8; 12] = kani::any();
    data[0] = b'G';
    data[1] = b'I';
    data[2] = b'F';
    let len: usize = kani::any();
    kani::assume(len >= 3 && len <= 12);
    let r = PictureMetrics::try_new(&data[..len]);
    kani::cover!(r.is_ok());
    std::mem::forget(r);
}

// ===========================================================================
// C10/C11: block size arithmetic (24-bit limit)
// ===========================================================================

// @harness prop=C10,C11 tier=quick expect=pass timeout=300
// @units metadata::BlockSize::checked_add metadata::BlockSize::checked_sub metadata::BlockSize::try_from
// @bound every pair of 24-bit block sizes; every u32/u64/usize conversion input
// @oracle results never exceed 2^24-1; add/sub agree with mathematical integers or return None; conversions accept exactly 0..=2^24-1
#[kani::proof]
fn c11_block_size_arithmetic() {
    let a: u32 = kani::any();
    let b: u32 = kani::any();
    let max = (1u32 << 24) - 1;
    kani::assume(a <= max && b <= max);
    let (sa, sb) = (BlockSize::try_from(a).unwrap(), BlockSize::try_from(b).unwrap());
    match sa.checked_add(sb) {
        Some(s) => assert!(s.get() == a + b && a + b <= max),
        None => assert!(a + b > max),
    }
    match sa.checked_sub(sb) {
        Some(s) => assert!(a >= b && s.get() == a - b),
        None => assert!(a < b),
    }
    let w: u64 = kani::any();
    match BlockSize::try_from(w) {
        Ok(s) => assert!(w <= u64::from(max) && u64::from(s.get()) == w),
        Err(_) => assert!(w > u64::from(max)),
    }
    let u: usize = kani::any();
    match BlockSize::try_from(u) {
        Ok(s) => assert!(u <= max as usize && s.get() as usize == u),
        Err(_) => assert!(u > max as usize),
    }
    let v: u32 = kani::any();
    assert!(BlockSize::try_from(v).is_ok() == (v <= max));
}

// ===========================================================================
// C11: block bodies survive write -> read, and report their size correctly
// (TokFifo = exact model of "the bits written are the bits read")
// ===========================================================================

// @harness prop=C11,C15 tier=quick expect=pass timeout=600
// @units metadata::Streaminfo::to_writer metadata::Streaminfo::from_reader metadata::MetadataBlock::bytes
// @bound every STREAMINFO value: block sizes 16 bit, frame sizes 24 bit or unknown, rate 20 bit, channels 1..=8, depth 1..=32 (incl. 1 and 32), total 36 bit or unknown, any MD5 or none
// @oracle the writer does not panic and succeeds; the reader returns an equal value; bits written == 34 * 8
#[kani::proof]
#[kani::unwind(40)]
fn c11_streaminfo_roundtrip() {
    let mut si = any_streaminfo();
    // an all-zero digest is the coding of "no digest"
    if let Some(m) = si.md5.as_mut() {
        m[0] |= 1;
    }
    let mut q = TokFifo::<40>::new();
    let w = q.build(&si);
    assert!(w.is_ok() && !q.failed);
    assert!(q.wpos == 34 * 8);
    let back: Streaminfo = q.parse().unwrap();
    assert!(q.drained());
    assert!(back.minimum_block_size == si.minimum_block_size);
    assert!(back.maximum_block_size == si.maximum_block_size);
    assert!(back.minimum_frame_size == si.minimum_frame_size);
    assert!(back.maximum_frame_size == si.maximum_frame_size);
    assert!(back.sample_rate == si.sample_rate);
    assert!(back.channels == si.channels);
    assert!(u32::from(back.bits_per_sample) == u32::from(si.bits_per_sample));
    assert!(back.total_samples == si.total_samples);
    match (back.md5, si.md5) {
        (None, None) => {}
        (Some(a), Some(b)) => {
            let mut i = 0;
            while i < 16 {
                assert!(a[i] == b[i]);
                i += 1;
            }
        }
        _ => assert!(false),
    }
    kani::cover!(u32::from(si.bits_per_sample) == 1);
    kani::cover!(u32::from(si.bits_per_sample) == 32);
}


// @harness prop=C11 tier=quick expect=pass timeout=600
// @units metadata::MetadataBlock::bytes metadata::MetadataBlock::total_size metadata::BlockBits (Streaminfo instantiation)
// @bound every STREAMINFO value
// @oracle self-reported size == 34 bytes (the size the writer emits, see c11_streaminfo_roundtrip), 38 with the block header
#[kani::proof]
#[kani::unwind(20)]
fn c11_streaminfo_reported_size() {
    let si = any_streaminfo();
    assert!(si.bytes().map(|b| b.get()) == Some(34));
    assert!(si.total_size().map(|b| b.get()) == Some(38));
}


// ---------------------------------------------------------------------------
// more block bodies through the FIFO
// ---------------------------------------------------------------------------

fn any_seekpoint() -> SeekPoint {
    if kani::any() {
        SeekPoint::Placeholder
    } else {
        let s: u64 = kani::any();
        // u64::MAX is the placeholder marker and cannot be a defined point's offset
        kani::assume(s != u64::MAX);
        SeekPoint::Defined {
            sample_offset: s,
            byte_offset: kani::any(),
            frame_samples: kani::any(),
        }
    }
}

// @harness prop=C11 tier=quick expect=pass timeout=900
// @units metadata::SeekPoint::to_writer metadata::SeekPoint::from_reader metadata::SeekPoint::is_next
// @bound one seek point: a placeholder, or a defined point with arbitrary 64-bit sample offset (except the placeholder marker 2^64-1), byte offset and 16-bit length
// @oracle 18 bytes written; reads back equal; a placeholder is written with the all-ones sample offset
// (whole SEEKTABLE blocks go through Contiguous + Vec + collect: a 2-point table did not finish in 900 s)
#[kani::proof]
#[kani::unwind(20)]
fn c11_seekpoint_roundtrip() {
    let p = any_seekpoint();
    let mut q = TokFifo::<20>::new();
    let w = q.build(&p);
    assert!(w.is_ok() && !q.failed);
    std::mem::forget(w);
    assert!(q.wpos == 18 * 8);
    if matches!(p, SeekPoint::Placeholder) {
        let mut i = 0;
        while i < 8 {
            assert!(q.vals[i] == 0xFF);
            i += 1;
        }
    }
    let back: Result<SeekPoint, std::io::Error> = q.parse();
    assert!(back.is_ok());
    let back = back.unwrap();
    assert!(q.drained());
    match (&back, &p) {
        (SeekPoint::Placeholder, SeekPoint::Placeholder) => {}
        (
            SeekPoint::Defined { sample_offset: a, byte_offset: b, frame_samples: c },
            SeekPoint::Defined { sample_offset: x, byte_offset: y, frame_samples: z },
        ) => assert!(a == x && b == y && c == z),
        _ => assert!(false),
    }
}

// @harness prop=C11 tier=quick expect=pass timeout=600
// @units metadata::Application::to_writer metadata::Application::from_reader
// @bound APPLICATION block with any 32-bit id and a payload of 0, 1 or 3 arbitrary bytes
// @oracle reads back equal given the self-reported size; a declared size below 4 is Err(InsufficientApplicationBlock)
#[kani::proof]
#[kani::unwind(10)]
fn c11_application_block_roundtrip() {
    const LENS: [usize; 3] = [0, 1, 3];
    let mut k = 0;
    while k < LENS.len() {
        let id: u32 = kani::any();
        let bytes: [u8; 3] = kani::any();
        let a = Application { id, data: bytes[..LENS[k]].to_vec() };
        let mut q = TokFifo::<10>::new();
        let w = q.build(&a);
        assert!(w.is_ok() && !q.failed);
        std::mem::forget(w);
        let size = a.bytes().unwrap();
        assert!(size.get() as usize == 4 + LENS[k] && q.wpos == 8 * (4 + LENS[k] as u64));
        let back: Result<Application, Error> = q.parse_using(size);
        assert!(back.is_ok());
        let back = back.unwrap();
        assert!(q.drained() && back.id == id && back.data.len() == LENS[k]);
        let mut i = 0;
        while i < LENS[k] {
            assert!(back.data[i] == bytes[i]);
            i += 1;
        }
        std::mem::forget(back);
        std::mem::forget(a);
        k += 1;
    }
    let short: u32 = kani::any();
    kani::assume(short < 4);
    let mut q = TokFifo::<10>::new();
    q.push(0, 8, 1);
    q.push(0, 8, 2);
    q.push(0, 8, 3);
    q.push(0, 8, 4);
    let r: Result<Application, Error> = q.parse_using(BlockSize::try_from(short).unwrap());
    assert!(matches!(r, Err(Error::InsufficientApplicationBlock)));
    std::mem::forget(r);
}

// vacuity twin for the FIFO round-trip family
// @harness prop=C11 tier=quick expect=fail timeout=600
// @units metadata::Streaminfo::to_writer metadata::Streaminfo::from_reader
// @bound reachability witness: the STREAMINFO round trip reaches its final comparison
#[kani::proof]
#[kani::unwind(40)]
fn c11_streaminfo_roundtrip_twin() {
    let si = any_streaminfo();
    let mut q = TokFifo::<40>::new();
    let w = q.build(&si);
    std::mem::forget(w);
    let back: Result<Streaminfo, std::io::Error> = q.parse();
    if let Ok(b) = back {
        if b.sample_rate == si.sample_rate && q.drained() && !q.failed {
            assert!(false);
        }
    }
}

// (C10: update_file on a concrete 58-byte file - fLaC + STREAMINFO + PADDING(8)
// + 4 symbolic audio bytes, edit = insert an 8-byte APPLICATION block, real
// BufReader/BufWriter/BitReader/BitWriter at a fully concrete layout - did not
// finish in 1500 s; the size arithmetic lives in functions nested inside
// update_file and cannot be called on its own)

// ===========================================================================
// C12: fixed-layout block readers are total on arbitrary bits (incl. end of
// data at every read)
// ===========================================================================

// @harness prop=C12 tier=quick expect=pass timeout=600
// @units metadata::Streaminfo::from_reader metadata::BlockHeader::from_reader metadata::BlockType::from_reader metadata::SeekPoint::from_reader
// @bound arbitrary field values for a block header, a STREAMINFO body and a seek point; every read may instead report end of data
// @oracle never a panic (the depth field + 1 always fits, reserved block types are errors); Ok values respect their field widths
#[kani::proof]
#[kani::unwind(20)]
fn c12_fixed_block_readers_total() {
    let mut r = SymBits::arbitrary(7);
    let h: Result<BlockHeader, Error> = r.parse();
    if let Ok(h) = &h {
        assert!(h.size.get() < (1 << 24));
    }
    std::mem::forget(h);
    let mut r = SymBits::arbitrary(7);
    let s: Result<Streaminfo, std::io::Error> = r.parse();
    if let Ok(s) = &s {
        let b = u32::from(s.bits_per_sample);
        assert!(b >= 1 && b <= 32);
        assert!(s.channels.get() >= 1 && s.channels.get() <= 8);
        assert!(s.sample_rate < (1 << 20));
        assert!(s.total_samples.map(|t| t.get()).unwrap_or(0) < (1 << 36));
    }
    kani::cover!(s.is_ok());
    std::mem::forget(s);
    let mut r = SymBits::arbitrary(7);
    let p: Result<SeekPoint, std::io::Error> = r.parse();
    kani::cover!(matches!(p, Ok(SeekPoint::Placeholder)));
    std::mem::forget(p);
}
